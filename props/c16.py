"""C16 - update-candidate info record and DFU partition image (suit_generator/cmd_image.py)."""
from __future__ import annotations

import os
import tempfile

from vlib.ob import Ob

PROPERTY = "C16"
U32 = 2**32 - 1

META = {
    "files": ["suit_generator/cmd_image.py"],
    "functions": [
        "suit_generator.cmd_image.ImageCreator._prepare_suit_storage_struct_format",
        "suit_generator.cmd_image.ImageCreator._prepare_update_candidate_info_for_update",
        "suit_generator.cmd_image.ImageCreator._create_suit_storage_file_for_update",
        "suit_generator.cmd_image.ImageCreator._create_dfu_partition_hex_file",
        "suit_generator.cmd_image.ImageCreator.create_files_for_update",
        "suit_generator.cmd_image.main (update dispatch)",
    ],
    "bounds": "update-candidate-info address, DFU partition address, envelope size: every integer 0..2^32-1 (symbolic); "
    "cache count 0..16 (CrossHair realizes it at n*'II': solver-driven enumeration of the 17 values); "
    "Intel-HEX library contract validated concretely at 64 KiB / 16 MiB boundaries",
    "stubs": [
        "struct.Struct(fmt).pack -> struct.pack(fmt, ...) (same contract; the method realizes under CrossHair)",
        "intelhex.IntelHex -> recording stub (frombytes/merge/write_hex_file), intelhex.bin2hex -> recorder; "
        "validated against the real library with an independent HEX reader (obligation stub_validation)",
        "os.path.getsize -> returns a symbolic size for the input file",
    ],
    "outside": [
        "Intel-HEX text syntax and extended addressing are the intelhex library's: validated concretely at boundary "
        "addresses/sizes on every run, not decided by the solver",
        "values outside 32 bits (struct.error in the real code)",
    ],
    "assumptions": ["struct.pack('<I..') contract as modelled by CrossHair", "intelhex 2.3.0 contract as validated"],
}


def obligations(tier):
    obs = [
        Ob("record_layout", "E1", "h_record", {}, 120, "part,size in [0,2^32-1], caches 0..16", weight=5),
        Ob("update_flow", "E1", "h_flow", {}, 180, "info addr, part addr, size in [0,2^32-1], caches 0..16; files through stubs", weight=10),
        Ob("update_flow_twice_same_path", "E1", "h_twice", {}, 300, "two consecutive updates of ONE path whose size changed in between (both sizes symbolic): the second record carries the second size", weight=20),
        Ob("update_twice_memoisation", "E2", "k_twice", {}, 300, "same history interpreted by kernsym, which honours functools.lru_cache (CrossHair bypasses it): second record carries the second size", weight=5),
        Ob("update_flow_missing_file", "E1", "h_missing", {}, 60, "absent input file -> GeneratorError, nothing written", weight=2),
        Ob("stub_validation", "V", "v_intelhex", {"tier": tier}, 300, "real intelhex + independent reader at boundary addresses/sizes", twin=False, weight=8),
    ]
    return obs


# ------------------------------------------------------------------------------------------------ reference


def le32(x):
    return bytes([x % 256, (x // 256) % 256, (x // 65536) % 256, (x // 16777216) % 256])


def ref_record(part, size, n):
    return b"\xaa\x55\xaa\x55" + le32(1) + le32(part) + le32(size) + b"\x00" * (8 * n)


# ------------------------------------------------------------------------------------------------ harnesses


def _env():
    from vlib import repoenv, stubs

    repoenv.prepare_symbolic()
    import suit_generator.cmd_image as CI

    CI.struct = stubs.StructModuleProxy()
    CI.IntelHex = stubs.HexRecorder
    CI.bin2hex = stubs.bin2hex_recorder
    return CI, stubs


def h_record(exclude=()):
    CI, stubs = _env()
    from vlib import chx

    def harness():
        part = chx.sym_int("part", 0, U32)
        size = chx.sym_int("size", 0, U32)
        n = chx.sym_int("n", 0, 16)
        out = CI.ImageCreator._prepare_update_candidate_info_for_update(part, size, n)
        ok = out == ref_record(part, size, n)
        return chx.conclude(ok, part=part, size=size, n=n)

    return harness


class _OsPathProxy:
    def __init__(self, real, sizes):
        self._real = real
        self._sizes = sizes

    def getsize(self, name):
        for n, s in self._sizes:
            if n == name:
                return s
        raise FileNotFoundError(2, "No such file or directory", name)

    def __getattr__(self, k):
        return getattr(self._real, k)


class _OsProxy:
    def __init__(self, real, sizes):
        self._real = real
        self.path = _OsPathProxy(real.path, sizes)

    def __getattr__(self, k):
        return getattr(self._real, k)


def h_flow(exclude=()):
    CI, stubs = _env()
    from vlib import chx

    real_os = os

    def harness():
        info = chx.sym_int("info", 0, U32)
        part = chx.sym_int("part", 0, U32)
        size = chx.sym_int("size", 0, U32)
        n = chx.sym_int("n", 0, 16)
        via_main = chx.sym_bool("via_main")
        stubs.HexRecorder.LOG = []
        CI.os = _OsProxy(real_os, [("in.suit", size)])
        if via_main:
            CI.main(
                image="update",
                input_file="in.suit",
                storage_output_file="storage.hex",
                dfu_partition_output_file="dfu.hex",
                update_candidate_info_address=info,
                dfu_partition_address=part,
                dfu_max_caches=n,
            )
        else:
            CI.ImageCreator.create_files_for_update("in.suit", "storage.hex", "dfu.hex", info, part, n)
        log = stubs.HexRecorder.LOG
        ok = len(log) == 2
        if ok:
            w, b = log[0], log[1]
            ok = (
                w[0] == "write"
                and w[1] == "storage.hex"
                and len(w[2]) == 1
                and w[2][0][0] == info
                and w[2][0][1] == ref_record(part, size, n)
                and b[0] == "bin2hex"
                and b[1] == "in.suit"
                and b[2] == "dfu.hex"
                and b[3] == part
            )
        return chx.conclude(ok, info=info, part=part, size=size, n=n, via_main=via_main)

    return harness


def h_twice(exclude=()):
    CI, stubs = _env()
    from vlib import chx

    real_os = os

    def harness():
        info = chx.sym_int("info", 0, U32)
        part = chx.sym_int("part", 0, U32)
        s1 = chx.sym_int("size1", 0, U32)
        s2 = chx.sym_int("size2", 0, U32)
        n = chx.sym_int("n", 0, 2)
        sizes = [("in.suit", s1)]
        CI.os = _OsProxy(real_os, sizes)
        stubs.HexRecorder.LOG = []
        CI.ImageCreator.create_files_for_update("in.suit", "storage.hex", "dfu.hex", info, part, n)
        sizes[0] = ("in.suit", s2)
        CI.ImageCreator.create_files_for_update("in.suit", "storage.hex", "dfu.hex", info, part, n)
        w = [e for e in stubs.HexRecorder.LOG if e[0] == "write"]
        ok = len(w) == 2 and w[0][2][0][1] == ref_record(part, s1, n) and w[1][2][0][1] == ref_record(part, s2, n)
        return chx.conclude(ok, info=info, part=part, size1=s1, size2=s2, n=n)

    return harness


def k_twice(exclude=()):
    import time

    import z3

    from vlib import kernsym as K
    from vlib import ksmodels as KM
    from vlib import repoenv
    from vlib.ksvalues import Rope, SInt
    from vlib.repoenv import REPO

    repoenv.add_repo_to_path()
    import suit_generator.cmd_image as CI

    t0 = time.time()
    info, part, s1, s2 = z3.Ints("info part size1 size2")
    enc = set()

    def run(ctx):
        for v in (info, part, s1, s2):
            ctx.assume(z3.And(v >= 0, v <= U32))
        sizes = [SInt(s1), SInt(s2)]
        calls = []

        def getsize(it, args, kwargs):
            calls.append(args[0])
            return sizes[min(len(calls), 2) - 1]

        def b2h(it, args, kwargs):
            ctx.log.append(("bin2hex", args[0], args[1], args[2]))
            return 0

        models = dict(K.BASE_MODELS)
        models[os.path.getsize] = getsize
        models[CI.IntelHex] = KM.make_hex_model()
        models[CI.bin2hex] = b2h
        models[CI.struct.Struct] = KM.make_struct_model()
        it = K.Interp(ctx, [REPO], models=models)
        for _ in range(2):
            it.call_function(CI.ImageCreator.create_files_for_update, ["in.suit", "s.hex", "d.hex", SInt(info), SInt(part), 1], {}, None)
        enc.update(it.encoded)
        return None

    paths = K.explore(run, modules=[CI])
    vpp = []
    for p in paths:
        if p.outcome != "ret":
            vpp.append((p, [(f"no exception ({type(p.value).__name__})", z3.BoolVal(False))]))
            continue
        w = [e for e in p.log if e[0] == "hexwrite"]
        vcs = [("two storage files written", z3.BoolVal(len(w) == 2 and all(len(x[2]) == 1 for x in w)))]
        if len(w) == 2:
            for i, sz in enumerate((s1, s2)):
                a, rope = w[i][2][0]
                segs = Rope.of(rope).segs
                # magic(4) regions(4) address(4) size(4) + one zeroed cache entry (8): fields are little-endian ints
                flat = [sg for sg in segs]
                ok = len(flat) >= 4 and all(sg.kind in ("int", "const") for sg in flat)
                vcs.append((f"call {i + 1}: record fields", z3.BoolVal(ok)))
                vals = []
                for sg in flat:
                    if sg.kind == "int":
                        vals.append(sg.a)
                    else:
                        for j in range(0, len(sg.a), 4):
                            vals.append(z3.IntVal(int.from_bytes(sg.a[j : j + 4], "little")))
                if len(vals) >= 4:
                    vcs.append((f"call {i + 1}: magic", vals[0] == 0x55AA55AA))
                    vcs.append((f"call {i + 1}: one region", vals[1] == 1))
                    vcs.append((f"call {i + 1}: partition address", vals[2] == part))
                    vcs.append((f"call {i + 1}: size of the file at the time of the call", vals[3] == sz))
                    vcs.append((f"call {i + 1}: placed at the info address", a == info))
        vpp.append((p, vcs))
    from props.c10 import _finish, _model_int

    res = _finish(K, vpp, paths, t0, ["two calls, sizes size1 then size2"], lambda p, m: {"info": _model_int(m, info), "part": _model_int(m, part), "size1": _model_int(m, s1, 1), "size2": _model_int(m, s2, 2), "n": 1}, small=(s1, s2))
    res["functions"] = sorted(enc)
    if res["verdict"] == "CONFIRMED" and not any(p.outcome == "ret" for p in paths):
        res["verdict"] = "VACUOUS"
    return res


def h_missing(exclude=()):
    CI, stubs = _env()
    from vlib import chx
    from suit_generator.exceptions import GeneratorError

    real_os = os

    def harness():
        info = chx.sym_int("info", 0, U32)
        part = chx.sym_int("part", 0, U32)
        n = chx.sym_int("n", 0, 16)
        stubs.HexRecorder.LOG = []
        CI.os = _OsProxy(real_os, [])
        try:
            CI.ImageCreator.create_files_for_update("in.suit", "storage.hex", "dfu.hex", info, part, n)
            ok = False
        except GeneratorError:
            ok = len(stubs.HexRecorder.LOG) == 0
        return chx.conclude(ok, info=info, part=part, n=n)

    return harness


# ------------------------------------------------------------------------------------------------ stub validation (concrete)


def v_intelhex(tier="quick"):
    """The recording stub's contract against the real intelhex library, read back with an independent reader."""
    from intelhex import IntelHex, bin2hex
    from vlib.hexread import read_hex

    addrs = [0, 1, 0xFFFF, 0x10000, 0xFFFE, 0xFFFFFF, 0x1000000, 0xFFFFF0, 0x0E1EF340, 0x0E100000, 0xFFFF0000, 0xFFFFFFFF - 70000]
    sizes = [0, 1, 15, 16, 17, 255, 65535, 65536, 65537]
    if tier == "thorough":
        sizes += [2, 31, 32, 33, 4095, 4096, 131072 + 3]
        addrs += [0x7FFF, 0x8000, 0x1FFFF, 0xFFFFFE, 0x2000000 - 5]
    n = 0
    bad = []
    d = tempfile.mkdtemp(prefix="verif-c16-")
    try:
        for a in addrs:
            for s in sizes:
                if a + s > 2**32:
                    continue
                data = bytes((i * 7 + a + 3) & 0xFF for i in range(s))
                ih = IntelHex()
                ih.frombytes(data, a)
                p = os.path.join(d, "x.hex")
                ih.write_hex_file(p)
                mem = read_hex(open(p).read())
                exp = {a + i: data[i] for i in range(s)}
                n += 1
                if mem != exp:
                    bad.append(("frombytes", a, s))
                # bin2hex
                pin = os.path.join(d, "x.bin")
                with open(pin, "wb") as fh:
                    fh.write(data)
                rc = bin2hex(pin, p, a)
                mem = read_hex(open(p).read())
                n += 1
                if rc != 0 or mem != exp:
                    bad.append(("bin2hex", a, s))
    finally:
        import shutil

        shutil.rmtree(d, ignore_errors=True)
    return dict(
        verdict="CONFIRMED" if not bad else "ERROR",
        paths=n,
        validated=n,
        message=("stub contract disagrees with intelhex at " + repr(bad[:5])) if bad else "",
    )


# ------------------------------------------------------------------------------------------------ replay


def replay(obligation, params, cex):
    """Real struct, real intelhex, real files."""
    import suit_generator.cmd_image as CI
    from suit_generator.exceptions import GeneratorError
    from vlib.hexread import read_hex

    part, size, n = cex.get("part", 0), cex.get("size", 0), cex.get("n", 0)
    info = cex.get("info", 0)
    if obligation == "record_layout":
        try:
            out = CI.ImageCreator._prepare_update_candidate_info_for_update(part, size, n)
        except Exception as e:  # noqa
            return dict(reproduced=True, detail=f"raises {type(e).__name__}: {e}")
        exp = ref_record(part, size, n)
        return dict(reproduced=out != exp, detail=f"got {out.hex()} expected {exp.hex()}")
    d = tempfile.mkdtemp(prefix="verif-c16r-")
    try:
        fin = os.path.join(d, "in.suit")
        if obligation in ("update_flow_twice_same_path", "update_twice_memoisation"):
            s1, s2 = min(cex.get("size1", 1), 1 << 20), min(cex.get("size2", 2), 1 << 20)
            if s1 == s2:
                s2 = s1 + 1
            sh, dh = os.path.join(d, "s.hex"), os.path.join(d, "d.hex")
            for sz in (s1, s2):
                open(fin, "wb").write(b"\x5a" * sz)
                try:
                    CI.ImageCreator.create_files_for_update(fin, sh, dh, info, part, n)
                except Exception as e:  # noqa
                    return dict(reproduced=True, detail=f"raises {type(e).__name__}: {e}")
            mem = read_hex(open(sh).read())
            rec = ref_record(part, s2, n)
            ok = mem == {info + i: rec[i] for i in range(len(rec))}
            return dict(reproduced=not ok, detail="second record does not carry the second size" if not ok else "second record correct")
        if obligation == "update_flow_missing_file":
            try:
                CI.ImageCreator.create_files_for_update(fin, os.path.join(d, "s.hex"), os.path.join(d, "d.hex"), info, part, n)
                return dict(reproduced=True, detail="no error for a missing file")
            except GeneratorError:
                left = os.listdir(d)
                return dict(reproduced=bool(left), detail=f"files left: {left}")
            except Exception as e:  # noqa
                return dict(reproduced=True, detail=f"raises {type(e).__name__}")
        small = size <= (1 << 20)
        with open(fin, "wb") as fh:
            if small:
                fh.write(bytes((i * 13 + 1) & 0xFF for i in range(size)))
            else:
                fh.truncate(size)
        content = open(fin, "rb").read() if small else None
        sh, dh = os.path.join(d, "s.hex"), os.path.join(d, "d.hex")
        try:
            if cex.get("via_main"):
                CI.main(image="update", input_file=fin, storage_output_file=sh, dfu_partition_output_file=dh,
                        update_candidate_info_address=info, dfu_partition_address=part, dfu_max_caches=n)
            elif small:
                CI.ImageCreator.create_files_for_update(fin, sh, dh, info, part, n)
            else:
                CI.ImageCreator._create_suit_storage_file_for_update(part, os.path.getsize(fin), info, sh, n)
        except Exception as e:  # noqa
            return dict(reproduced=True, detail=f"raises {type(e).__name__}: {e}")
        mem = read_hex(open(sh).read())
        rec = ref_record(part, size, n)
        exp = {info + i: rec[i] for i in range(len(rec))}
        if mem != exp:
            return dict(reproduced=True, detail="storage hex differs from the reference record placement")
        if small and os.path.exists(dh):
            mem = read_hex(open(dh).read())
            exp = {part + i: content[i] for i in range(size)}
            if mem != exp:
                return dict(reproduced=True, detail="DFU partition hex differs from the envelope file bytes")
        # the solver's values did not fail concretely: the symbolic failure may be structural (e.g. the library seam is
        # bypassed for some sizes); deterministic search over boundary sizes / unaligned addresses of the same call
        for sz in (0, 1, 17, 0xFFFF, 0x10000, 0x10001, 0x20005):
            for pa in (part, 0x0E100000, 0x0E0FFFF8, 0x0E100004, 0x00FFFFFF, 0xFFF8):
                if pa + sz > 2**32:
                    continue
                data = bytes((i * 11 + 5) & 0xFF for i in range(sz))
                open(fin, "wb").write(data)
                for f in (sh, dh):
                    if os.path.exists(f):
                        os.remove(f)
                try:
                    CI.ImageCreator.create_files_for_update(fin, sh, dh, info, pa, n)
                    m1 = read_hex(open(sh).read())
                    m2 = read_hex(open(dh).read())
                except Exception as e:  # noqa
                    return dict(reproduced=True, detail=f"size {sz} at {pa:#x}: {type(e).__name__}: {e}")
                rec = ref_record(pa, sz, n)
                if m1 != {info + i: rec[i] for i in range(len(rec))} or m2 != {pa + i: data[i] for i in range(sz)}:
                    return dict(reproduced=True, detail=f"size {sz} at partition address {pa:#x}: hex files differ from the reference")
        return dict(reproduced=False, detail="real code agrees with the reference")
    finally:
        import shutil

        shutil.rmtree(d, ignore_errors=True)
