"""C03 - parse then create reproduces the envelope (types/common.py, manifest.py, security.py, input_output.py)."""
from __future__ import annotations

from vlib.ob import Ob

PROPERTY = "C03"

META = {
    "files": ["suit_generator/suit/types/common.py", "suit_generator/suit/manifest.py", "suit_generator/suit/security.py", "suit_generator/input_output.py", "suit_generator/envelope.py", "suit_generator/cmd_parse.py", "suit_generator/cmd_create.py"],
    "functions": [
        "from_cbor / to_obj / from_obj / to_cbor of the node classes of every grammar area of C02 (same generators)",
        "SuitUnion trial order; SuitKeyValue.from_cbor payload-vs-dependency classification",
        "suit_generator.input_output.InputOutputMixin.parse_json_submanifests / parse_yaml_submanifests / prepare_suit_data",
    ],
    "bounds": "inputs are the image of create over the description generators of C02 (same symbolic leaves and bounds); per area: create(parse(create(d))) == create(d) byte for byte, "
    "parse is a fixpoint (parse(create(parse(create(d)))) == parse(create(d))), and leaf fidelity on the union-ambiguous positions (component-identifier parts, parameter content, "
    "key id, index forms, text); whole envelopes incl. an integrated dependency through both hierarchy-expansion functions",
    "stubs": ["as C02 (cbormodel, hash/uuid token stubs, hex provenance)"],
    "outside": ["the YAML/JSON text layer (PyYAML / json are C or third-party parsers: executed concretely only)", "envelopes obtained by signing / payload extraction (their shape is covered by C04/C11 outputs being inside the generated grammar)"],
    "assumptions": [],
}

AREAS = ["parameters_a", "parameters_b", "parameters_c", "conditions", "directives", "nesting", "component_id", "common", "manifest_a", "manifest_b", "header", "sign1", "authentication", "encrypt", "textmap", "envelope_a", "envelope_b"]


# obligations whose exhaustion costs more than ~4 CPU-minutes on the unchanged tree (measured): thorough tier only
HEAVY = {"roundtrip_component_id_part00", "roundtrip_authentication_blocks2_names2", "roundtrip_authentication_blocks2_names3",
         "roundtrip_envelope_b_pn1_len0_dep0", "roundtrip_envelope_b_pn1_len0_dep1", "roundtrip_envelope_b_pn1_len1_dep1",
         "roundtrip_envelope_b_pn2_len0_dep0", "roundtrip_envelope_b_pn2_len0_dep1", "roundtrip_envelope_b_pn2_len1_dep1",
         "roundtrip_envelope_a_severed3", "roundtrip_textmap_entries1", "roundtrip_hierarchy_expansion_never", "roundtrip_common_members3", "roundtrip_manifest_a_members3_uri0", "roundtrip_manifest_a_members3_uri1", "roundtrip_manifest_a_members3_uri2", "roundtrip_textmap_entries0", "roundtrip_encrypt_calg1", "roundtrip_encrypt_calg2"}


def obligations(tier):
    from props.c02 import SPLITS

    SPLITS = dict(SPLITS)
    SPLITS["envelope_b"] = ("pn", 3)
    obs = []
    for a in AREAS:
        if a == "authentication":
            from props.c02 import AUTH_SPLIT

            for name, fix in AUTH_SPLIT:
                obs.append(Ob(f"roundtrip_{a}{name}", "E1", "h_roundtrip", {"area": a, "fix": fix}, 1200, f"area {a} {fix}: bytes reproduced, parse fixpoint, leaf fidelity", weight=100))
            continue
        if a in SPLITS:
            sel, n = SPLITS[a]
            for i in range(n):
                if a == "manifest_a" and i == 3:
                    for u in range(3):
                        obs.append(Ob(f"roundtrip_{a}_{sel}{i}_uri{u}", "E1", "h_roundtrip", {"area": a, "fix": {sel: i, "uri": u}}, 1200, f"area {a} ({sel}={i}, uri={u}): bytes reproduced, parse fixpoint, leaf fidelity", weight=100))
                    continue
                if a == "envelope_b":
                    for pl in (0, 1):
                        for wd in (0, 1):
                            obs.append(Ob(f"roundtrip_{a}_{sel}{i}_len{pl}_dep{wd}", "E1", "h_roundtrip", {"area": a, "fix": {sel: i, "pa_len": pl, "with_dep": wd}}, 1200, f"area {a} ({sel}={i}, first payload {'empty' if pl else '3 bytes'}, {'with' if wd else 'without'} integrated dependency): bytes reproduced, parse fixpoint, leaf fidelity", weight=100))
                    continue
                if a == "encrypt":
                    # split further on two structure flags (the union of the four parts is the area): each part is run twice when the
                    # known finding F14 is hit (once to find it, once with its predicate assumed away)
                    for nested in (0, 1):
                        for rp in (0, 1):
                            for ck in (0, 1):
                                obs.append(Ob(f"roundtrip_{a}_{sel}{i}_n{nested}p{rp}c{ck}", "E1", "h_roundtrip", {"area": a, "fix": {sel: i, "nested": nested, "rec_protected": rp, "has_cek": ck}}, 1200, f"area {a} ({sel}={i}, nested={nested}, rec_protected={rp}, wrapped key {'present' if ck else 'absent'}): bytes reproduced, parse fixpoint, leaf fidelity", weight=100))
                    continue
                obs.append(Ob(f"roundtrip_{a}_{sel}{i}", "E1", "h_roundtrip", {"area": a, "fix": {sel: i}}, 1200, f"area {a} ({sel}={i}): bytes reproduced, parse fixpoint, leaf fidelity", weight=100))
        else:
            obs.append(Ob(f"roundtrip_{a}", "E1", "h_roundtrip", {"area": a}, 1200, f"area {a}: bytes reproduced, parse fixpoint, leaf fidelity", weight=100))
    for ym in (0, 1):
        obs.append(Ob(f"hierarchy_expansion_{'yaml' if ym else 'json'}", "E1", "h_hierarchy", {"yaml_mode": ym}, 1200, f"envelope with an integrated dependency: parse with hierarchy expansion ({'yaml' if ym else 'json'} variant) then create reproduces the bytes", weight=250))
    # longest first (measured seconds on the unchanged tree)
    for o in obs:
        if o.name.startswith(("roundtrip_nesting", "roundtrip_parameters_c", "roundtrip_authentication_blocks2", "roundtrip_common_members0", "roundtrip_component_id_part0", "roundtrip_envelope_b", "roundtrip_manifest_b")):
            o.weight = 200
    if tier == "quick":
        # encryption info: one structure per flag in the quick tier (flat/nested recipients x wrapped key present/absent)
        keep_enc = ("roundtrip_encrypt_calg0_n0p0c1", "roundtrip_encrypt_calg0_n1p1c0", "roundtrip_encrypt_calg0_n0p1c0")
        obs = [o for o in obs if o.name not in HEAVY and (not o.name.startswith("roundtrip_encrypt_") or o.name in keep_enc)]
    return obs


def parse(e, clsname, b):
    from props.c02 import get_class

    return get_class(e, clsname).from_cbor(b).to_obj()


def fidelity(area, d, d2):
    """Leaf fidelity on the union-ambiguous positions: the parsed description names the same content with the same type."""
    ok = True
    if area == "component_id":
        ok = len(d2) == len(d)
        for p, q in zip(d, d2):
            if isinstance(p, str):
                ok = ok and isinstance(q, str) and q == p
            elif isinstance(p, bool):
                ok = ok and q is p
            elif isinstance(p, int):
                ok = ok and isinstance(q, int) and not isinstance(q, bool) and q == p
            elif "raw" in p:
                ok = ok and isinstance(q, dict) and q.get("raw") == p["raw"]
            else:
                ok = ok and isinstance(q, dict) and "raw" in q
    elif area.startswith("parameters"):
        for k, v in d.items():
            if k not in d2:
                return False
            w = d2[k]
            if isinstance(v, bool):
                ok = ok and w is v
            elif isinstance(v, int):
                ok = ok and isinstance(w, int) and not isinstance(w, bool) and w == v
            elif isinstance(v, str):
                ok = ok and isinstance(w, str) and w == v
            elif k == "suit-parameter-image-size":
                ok = ok and w == {"raw": v["raw"]}
    elif area == "header":
        for k, v in d.items():
            if k not in d2:
                return False
            w = d2[k]
            if isinstance(v, int):
                ok = ok and isinstance(w, int) and w == v
            else:
                ok = ok and isinstance(w, str) and w == v
    elif area == "textmap":
        ok = d2 == d
    elif area == "manifest_a":
        for k in ("suit-manifest-sequence-number", "suit-reference-uri", "suit-current-version"):
            if k in d:
                ok = ok and k in d2 and d2[k] == d[k] and type(d2[k]) is type(d[k])
    return ok


def _embed(area, clsname, d):
    """Areas whose top class encodes bstr-wrapped (the enclosing map unwraps on parse) are round-tripped inside their parent."""
    if area == "encrypt":
        return "SuitParameters", {"suit-parameter-encryption-info": d}
    return clsname, d


def ambiguous_bytes(area, d):
    """(finding id, hex leaf) for byte-string leaves at union positions where the other alternative is a bstr-wrapped integer."""
    out = []

    def walk(x, key=None):
        if isinstance(x, dict):
            for k, v in x.items():
                walk(v, k)
        elif isinstance(x, list):
            for v in x:
                walk(v, key)
        elif isinstance(x, str) and hasattr(x, "prov"):
            if key == "suit-parameter-content":
                out.append(("F11", x))
            elif key == "suit-cose-key-id":
                out.append(("F12", x))
            elif key == "ciphertext":
                out.append(("F14", x))

    walk(d)
    return out


def member_names(d):
    env = d["SUIT_Envelope_Tagged"]
    names = []
    for k in ("suit-integrated-payloads", "suit-integrated-dependencies"):
        for n in (env.get(k) or {}).keys():
            names.append(n)
    return sorted(names)


def payload_leaves(d):
    out = []
    if isinstance(d, dict) and "SUIT_Envelope_Tagged" in d:
        for k in ("suit-integrated-payloads",):
            for v in (d["SUIT_Envelope_Tagged"].get(k) or {}).values():
                if hasattr(v, "prov"):
                    out.append(v)
    return out


def h_roundtrip(area, fix=None, exclude=()):
    from vlib import suitenv

    e = suitenv.setup()
    from props import c02

    from vlib import chx

    chx.FIXED.clear()
    chx.FIXED.update(fix or {})

    def harness():
        suitenv.reset(e)
        L = c02.SymLeaves(chx)
        clsname, fn, d = c02.build(area, L, exclude=("F10",))
        clsname, d = _embed(area, clsname, d)
        if area == "component_id" and "F4" in exclude:
            for p in d:
                if isinstance(p, str) and len(p) == 1:
                    chx.assume(("a" <= p <= "z") or ("A" <= p <= "Z"))
        for leaf in payload_leaves(d):
            # a payload that is itself a decodable envelope is (consistently) classified as a dependency by parse; a fully symbolic
            # head byte forks the classification decoder over every CBOR type: one representative non-envelope head
            # ... plus the head of tag 107 in front of something that is not an envelope (d8 6b 00: tag 107 around the integer 0)
            p = leaf.prov
            chx.assume(len(p) == 0 or p[0] == 0x01 or (len(p) >= 2 and p[0] == 0xD8 and p[1] == 0x6B and (len(p) == 2 or p[2] == 0x00)))
        for fid, leaf in ambiguous_bytes(area, d):
            if fid not in exclude and area == "encrypt":
                # wrapped-key bytes: the head byte forks the trial decoder over every CBOR type (~230 paths before the known
                # ambiguity F14 is reached); two representatives - an unambiguous head and the nil head
                chx.assume(len(leaf.prov) == 0 or leaf.prov[0] == 0x40 or leaf.prov[0] == 0xF6)
            if fid in exclude:
                # an empty-bstr head never decodes as the integer / null alternative (one representative head byte: a fully
                # symbolic head forks the decoder over every CBOR type)
                chx.assume(len(leaf.prov) == 0 or leaf.prov[0] == 0x40)
        if area == "component_id" and "F13" in exclude:
            for p in d:
                if isinstance(p, dict) and "raw" in p:
                    chx.assume(len(p["raw"].prov) == 16)
        b = c02.real_encode(e, clsname, c02._clone(d))
        d2 = parse(e, clsname, b)
        b2 = c02.real_encode(e, clsname, c02._clone(d2))
        d3 = parse(e, clsname, b2)
        ok = b2 == b and d3 == d2 and fidelity(area, d if clsname != "SuitEnvelopeTagged" else d, d2)
        if clsname == "SuitEnvelopeTagged":
            # the parsed description names the same integrated members as the description the envelope was made from (as payload or,
            # when the bytes are an envelope, as dependency): nothing dropped on either leg
            ok = ok and member_names(d) == member_names(d2)
        return chx.conclude(ok)

    return harness


def h_hierarchy(yaml_mode=None, exclude=()):
    from vlib import suitenv

    e = suitenv.setup()
    from props import c02
    from suit_generator.input_output import InputOutputMixin

    from vlib import chx

    chx.FIXED.clear()
    chx.FIXED.update({"with_dep": 0, "walg": 0, "pn": 1, "pa_len": 0})
    if yaml_mode is not None:
        chx.FIXED["yaml_mode"] = yaml_mode

    def harness():
        suitenv.reset(e)
        L = c02.SymLeaves(chx)
        clsname, fn, d = c02.build("envelope_b", L)
        d["SUIT_Envelope_Tagged"]["suit-integrated-dependencies"] = {"dep.suit": {"SUIT_Envelope_Tagged": {"suit-authentication-wrapper": {"SuitDigest": {"suit-digest-algorithm-id": "cose-alg-sha-256", "suit-digest-bytes": "00"}}, "suit-manifest": {"suit-manifest-version": 1, "suit-manifest-sequence-number": L.uint("dseq", 65535)}}}}
        for leaf in payload_leaves(d):
            chx.assume(len(leaf.prov) == 0 or leaf.prov[0] == 0x01)
        b = InputOutputMixin.prepare_suit_data(c02._clone(d))
        d2 = e.EN.SuitEnvelopeTagged.from_cbor(b).to_obj()
        yaml_mode = L.bool("yaml_mode")
        if yaml_mode:
            d3 = InputOutputMixin.parse_yaml_submanifests(c02._clone(d2))
        else:
            d3 = InputOutputMixin.parse_json_submanifests(c02._clone(d2))
        # create ignores the auxiliary SUIT_Dependent_Manifests anchor section
        d4 = {"SUIT_Envelope_Tagged": d3["SUIT_Envelope_Tagged"]}
        b2 = InputOutputMixin.prepare_suit_data(d4)
        b3 = InputOutputMixin.prepare_suit_data(c02._clone(d2))
        ok = b2 == b and b3 == b and isinstance(d3["SUIT_Envelope_Tagged"]["suit-integrated-dependencies"]["dep.suit"], dict)
        return chx.conclude(ok)

    return harness


# ------------------------------------------------------------------------------------------------ replay


def replay(obligation, params, cex):
    import suit_generator.suit.envelope as EN
    import suit_generator.suit.manifest as MF
    import suit_generator.suit.security as SE
    from props import c02
    from suit_generator.input_output import InputOutputMixin

    class E:
        pass

    e = E()
    e.MF, e.SE, e.EN = MF, SE, EN
    L = c02.CexLeaves(cex)
    if obligation.startswith("hierarchy_expansion"):
        cex = dict(cex)
        cex["with_dep"] = False
        clsname, fn, d = c02.build("envelope_b", c02.CexLeaves(cex))
        d["SUIT_Envelope_Tagged"]["suit-integrated-dependencies"] = {"dep.suit": {"SUIT_Envelope_Tagged": {"suit-authentication-wrapper": {"SuitDigest": {"suit-digest-algorithm-id": "cose-alg-sha-256", "suit-digest-bytes": "00"}}, "suit-manifest": {"suit-manifest-version": 1, "suit-manifest-sequence-number": L.uint("dseq")}}}}
        try:
            b = InputOutputMixin.prepare_suit_data(c02._clone(d))
            d2 = EN.SuitEnvelopeTagged.from_cbor(b).to_obj()
            import copy

            d3 = InputOutputMixin.parse_yaml_submanifests(copy.deepcopy(d2)) if L.bool("yaml_mode") else InputOutputMixin.parse_json_submanifests(copy.deepcopy(d2))
            b2 = InputOutputMixin.prepare_suit_data({"SUIT_Envelope_Tagged": d3["SUIT_Envelope_Tagged"]})
            b3 = InputOutputMixin.prepare_suit_data(copy.deepcopy(d2))
        except Exception as ex:  # noqa
            return dict(reproduced=True, detail=f"raises {type(ex).__name__}: {ex}")
        return dict(reproduced=not (b2 == b and b3 == b), detail="hierarchical round trip changes the bytes" if not (b2 == b and b3 == b) else "bytes reproduced")
    area = params["area"]
    clsname, fn, d = c02.build(area, L, exclude=("F10",))
    clsname, d = _embed(area, clsname, d)

    def classify():
        import cbor2

        def decodes_as_int(hx):
            try:
                v = cbor2.loads(bytes.fromhex(hx))
            except Exception:
                return False
            return v is None or isinstance(v, int)

        found = set()

        def walk(x, key=None):
            if isinstance(x, dict):
                for k, v in x.items():
                    walk(v, k)
            elif isinstance(x, list):
                for v in x:
                    walk(v, key)
            elif isinstance(x, str) and key == "suit-parameter-content" and decodes_as_int(x):
                found.add("F11")
            elif isinstance(x, str) and key == "suit-cose-key-id" and decodes_as_int(x):
                found.add("F12")
            elif isinstance(x, str) and key == "ciphertext" and x[:2].lower() == "f6":
                found.add("F14")

        walk(d)
        return sorted(found)[0] if len(found) == 1 else None

    try:
        b = c02.real_encode(e, clsname, c02._clone(d))
        d2 = parse(e, clsname, b)
        b2 = c02.real_encode(e, clsname, c02._clone(d2))
        d3 = parse(e, clsname, b2)
    except Exception as ex:  # noqa
        return dict(reproduced=True, detail=f"round trip raises {type(ex).__name__}: {ex} for {d!r}"[:500])
    fam = classify()
    if area == "component_id" and fam is None:
        bad1 = [p for p in d if isinstance(p, str) and len(p) == 1 and not (("a" <= p <= "z") or ("A" <= p <= "Z"))]
        badraw = [p for p in d if isinstance(p, dict) and "raw" in p and len(p["raw"]) != 32]
        fam = "F4" if (bad1 and not badraw) else ("F13" if (badraw and not bad1) else None)
    if b2 != b:
        return dict(reproduced=True, detail=f"bytes differ after parse+create for {d!r}"[:500], finding=fam)
    if d3 != d2:
        return dict(reproduced=True, detail="parse is not a fixpoint", finding=fam)
    if clsname == "SuitEnvelopeTagged" and member_names(d) != member_names(d2):
        return dict(reproduced=True, detail=f"integrated members named by the description {member_names(d)} vs named by parse of the created envelope {member_names(d2)}: a member was dropped")
    if not fidelity(area, d, d2):
        fid = None
        if area == "component_id":
            bad = [p for p, q in zip(d, d2) if isinstance(p, str) and not (isinstance(q, str) and q == p)]
            if bad and all(len(p) == 1 and not (("a" <= p <= "z") or ("A" <= p <= "Z")) for p in bad) and len(bad) == len([1 for p, q in zip(d, d2) if (type(p) is not type(q) or p != q) and not isinstance(p, dict)]):
                fid = "F4"
        return dict(reproduced=True, detail=f"description re-typed by parse: {d!r} -> {d2!r}"[:500], finding=fid or fam)
    return dict(reproduced=False, detail="round trip faithful")
