"""C05 - digests, sizes and payloads taken from files describe those exact files (security.py, manifest.py, payloads.py, envelope.py)."""
from __future__ import annotations

import os
import tempfile

from vlib.ob import Ob

PROPERTY = "C05"

META = {
    "files": ["suit_generator/suit/security.py", "suit_generator/suit/manifest.py", "suit_generator/suit/payloads.py", "suit_generator/suit/envelope.py"],
    "functions": [
        "suit_generator.suit.security.SuitDigestExt.from_obj (file / file_direct / envelope / raw)",
        "suit_generator.suit.manifest.SuitImageSize.from_obj (file / file_direct / envelope / raw)",
        "suit_generator.suit.payloads.SuitIntegratedPayloadMap.from_obj (hex / inline envelope / path)",
        "suit_generator.suit.envelope.SuitBasicEnvelopeOperationsMixin.return_processed_binary_data + digest updaters",
    ],
    "bounds": "file contents: opaque symbolic bytes of length 0..3 (solver-chosen) and concrete contents of length 23, 24, 255, 256, 65536; all 5 digest algorithms; reference "
    "forms file / file_direct / raw / envelope (inline and by path); file names: solver-chosen from representatives incl. names made of hex digits only; dependency nesting depth 2; "
    "direct size files: decimal texts 0, 1, 1024, 4294967296",
    "stubs": ["in-memory file system with symbolic links behind open() and, through vlib/vfs.py, behind os.stat/lstat (os.path.*, pathlib), os.open, shutil; functools.lru_cache modelled faithfully; hashes.Hash -> congruent token stub; cbor2 -> cbormodel; hex provenance pair"],
    "outside": ["files larger than the listed sizes", "symbolic file names (path strings are compared and looked up: representatives instead)"],
    "assumptions": ["the reference encoder's file semantics: a path names that file's bytes (vlib/refenc.py)"],
}

HASHES = ["cose-alg-sha-256", "cose-alg-shake128", "cose-alg-sha-384", "cose-alg-sha-512", "cose-alg-shake256"]
NAMES = ["fw.bin", "file", "a/b.bin", "cafe", "00", "ABCDEF", "0x10", "é.bin"]


def obligations(tier):
    return [
        Ob("digest_from_file", "E1", "h_params", {"what": "digest"}, 900, "image digest: forms file/file_direct/raw x 5 algorithms x contents", weight=100),
        Ob("size_from_file", "E1", "h_params", {"what": "size"}, 900, "image size: forms file/file_direct/raw x contents incl. width boundaries", weight=60),
        Ob("digest_and_size_of_envelope", "E1", "h_envelope_ref", {}, 900, "digest/size of a dependency envelope given inline or by path: hash of its wrapped manifest after its own digests were refreshed", weight=100),
        Ob("history_files_replaced", "E1", "h_history", {}, 900, "two creations in one process; between them the firmware file and the dependency envelope file are replaced at the SAME paths (contents symbolic): the second envelope describes the new files (digest, size, payload, embedded dependency, dependency digest)", weight=100),
        Ob("payload_by_path", "E1", "h_payload", {}, 900, "integrated payload given by path (8 representative names incl. hex-looking ones), hex and inline forms next to it", weight=100),
        Ob("dependency_nesting", "E1", "h_dependency", {}, 900, "dependency envelope inline and by path at depth 2: embedded bytes == create(child) on its own; parent digest == hash of the child's wrapped manifest", weight=100),
    ]


class Sym:
    """File-table entry: symbolic link to `target` (relative to the link's directory)."""

    def __init__(self, target):
        self.target = target


def _place(L, files, name, content, tag):
    """Put `content` under `name`: directly, or (solver's choice) in store/<name> with `name` a symbolic link to it."""
    if L.bool(tag + "_via_symlink"):
        files["store/" + name] = content
        files[name] = Sym("store/" + name)
    else:
        files[name] = content


def _add_files(fs, files):
    for n, c in files.items():
        if isinstance(c, Sym):
            fs.add_symlink(n, c.target)
        else:
            fs.add(n, c)


def _content(L, name):
    kind = L.sel(name + "_kind", ["sym0", "sym1", "sym3", "c23", "c24", "c255", "c256"])
    if kind.startswith("sym"):
        n = int(kind[3:])
        return L.raw(name, n)
    n = int(kind[1:])
    return bytes((i * 7 + 3) & 0xFF for i in range(n))


class RawMixin:
    pass


def _leaves(chx):
    from props.c02 import SymLeaves

    class L(SymLeaves):
        def raw(self, name, n):
            return self.chx.sym_bytes(name, n)

    return L(chx)


def _cex_leaves(cex):
    from props.c02 import CexLeaves

    class L(CexLeaves):
        def raw(self, name, n):
            v = self.c.get(name)
            return bytes(v) if isinstance(v, (bytes, bytearray)) else bytes(n)

    return L(cex)


def build_params(L, what, files):
    """files: dict name -> content to be provided (filled here)."""
    if what == "digest":
        form = L.sel("form", ["file", "file_direct", "raw"])
        alg = L.sel("alg", HASHES)
        content = _content(L, "fw")
        if form == "file":
            _place(L, files, "fw.bin", content, "fw")
            b = {"file": "fw.bin"}
        elif form == "file_direct":
            _place(L, files, "digest.bin", content, "dg")
            b = {"file_direct": "digest.bin"}
        else:
            b = {"raw": L.hex("rawdigest", 4)}
        return {"suit-parameter-image-digest": {"suit-digest-algorithm-id": alg, "suit-digest-bytes": b}}
    form = L.sel("form", ["file", "file_direct", "raw"])
    if form == "file":
        kind = L.sel("size_kind", [0, 1, 23, 24, 255, 256, 65535, 65536])
        _place(L, files, "fw.bin", bytes(kind), "fw")
        v = {"file": "fw.bin"}
    elif form == "file_direct":
        _place(L, files, "size.txt", L.sel("size_text", ["0", "1", "1024", "4294967296"]), "sz")
        v = {"file_direct": "size.txt"}
    else:
        v = {"raw": L.uint("rawsize")}
    return {"suit-parameter-image-size": v}


def _child(L, name, small=False):
    walg = "cose-alg-sha-384" if small else L.sel(name + "_walg", ["cose-alg-sha-256", "cose-alg-shake128"])
    return {"SUIT_Envelope_Tagged": {"suit-authentication-wrapper": {"SuitDigest": {"suit-digest-algorithm-id": walg, "suit-digest-bytes": L.hex(name + "_sup", 2)}}, "suit-manifest": {"suit-manifest-version": 1, "suit-manifest-sequence-number": L.uint(name + "_seq", 23 if small else 2**64 - 1)}}}


def h_params(what, exclude=()):
    from vlib import suitenv

    e = suitenv.setup()
    from vlib import cbormodel, chx

    def harness():
        suitenv.reset(e)
        L = _leaves(chx)
        files = {}
        d = build_params(L, what, files)
        _add_files(e.fs, files)
        from props.c02 import _clone

        exp = cbormodel.plain_dumps(e.refenc.parameters(_clone(d), e.ctx))
        out = e.MF.SuitParameters.from_obj(_clone(d)).to_cbor()
        return chx.conclude(out == exp)

    return harness


def h_envelope_ref(exclude=()):
    from vlib import suitenv

    e = suitenv.setup()
    from vlib import cbormodel, chx

    def harness():
        suitenv.reset(e)
        L = _leaves(chx)
        from props.c02 import _clone

        child = _child(L, "child")
        by_path = L.bool("by_path")
        alg = L.sel("palg", HASHES)
        if by_path:
            cbytes = e.refenc.envelope(_clone(child), e.ctx)
            e.fs.add("child.suit", cbytes)
            ref = "child.suit"
        else:
            ref = child
        d = {"suit-parameter-image-digest": {"suit-digest-algorithm-id": alg, "suit-digest-bytes": {"envelope": ref}}, "suit-parameter-image-size": {"envelope": ref}}
        exp = cbormodel.plain_dumps(e.refenc.parameters(_clone(d), e.ctx))
        out = e.MF.SuitParameters.from_obj(_clone(d)).to_cbor()
        return chx.conclude(out == exp)

    return harness


def build_payload_env(L, files):
    name = L.sel("file_name", NAMES)
    content = b"\x01" + L.raw("content", 2)
    if "/" not in name and L.bool("pl_via_symlink"):
        files["store/" + name + ".real"] = content
        files[name] = Sym("store/" + name + ".real")
    else:
        files[name] = content
    man = {"suit-manifest-version": 1, "suit-manifest-sequence-number": L.uint("seq", 23)}
    order = L.bool("path_first")
    pl = {"#by-path": name, "#hex": L.hex("hexpayload", 2)} if order else {"#hex": L.hex("hexpayload", 2), "#by-path": name}
    env = {"suit-authentication-wrapper": {"SuitDigest": {"suit-digest-algorithm-id": "cose-alg-sha-256", "suit-digest-bytes": "00"}}, "suit-manifest": man, "suit-integrated-payloads": pl}
    return {"SUIT_Envelope_Tagged": env}, name, content


def h_payload(exclude=()):
    from vlib import suitenv

    e = suitenv.setup()
    from suit_generator.input_output import InputOutputMixin

    from vlib import chx
    from vlib.suitenv import hexleaf

    def harness():
        suitenv.reset(e)
        L = _leaves(chx)
        files = {}
        d, name, content = build_payload_env(L, files)
        if "F6" in exclude:
            chx.assume(not all(ch in "0123456789abcdefABCDEF" for ch in name))
        _add_files(e.fs, files)
        from props.c02 import _clone

        # the statement's semantics: a payload given by path is that file's content, whatever the name looks like
        d_exp = _clone(d)
        d_exp["SUIT_Envelope_Tagged"]["suit-integrated-payloads"]["#by-path"] = hexleaf(content)
        exp = e.refenc.envelope(d_exp, e.ctx)
        out = InputOutputMixin.prepare_suit_data(_clone(d))
        return chx.conclude(out == exp)

    return harness


def h_dependency(exclude=()):
    from vlib import suitenv

    e = suitenv.setup()
    from suit_generator.input_output import InputOutputMixin

    from vlib import cbormodel, chx

    def harness():
        suitenv.reset(e)
        L = _leaves(chx)
        from props.c02 import _clone

        grand = _child(L, "grand", small=True)
        child = _child(L, "child")
        gp = L.bool("grandchild_by_path")
        if gp:
            e.fs.add("grand.suit", e.refenc.envelope(_clone(grand), e.ctx))
            child["SUIT_Envelope_Tagged"]["suit-integrated-dependencies"] = {"g.suit": "grand.suit"}
        else:
            child["SUIT_Envelope_Tagged"]["suit-integrated-dependencies"] = {"g.suit": grand}
        cp = L.bool("child_by_path")
        alone = InputOutputMixin.prepare_suit_data(_clone(child))  # the child created on its own
        if cp:
            e.fs.add("child.suit", alone)
            ref = "child.suit"
        else:
            ref = child
        palg = L.sel("palg", ["cose-alg-sha-512", "cose-alg-shake256"])
        man = {"suit-manifest-version": 1, "suit-manifest-sequence-number": 9, "suit-common": {"suit-shared-sequence": [{"suit-directive-override-parameters": {"suit-parameter-image-digest": {"suit-digest-algorithm-id": palg, "suit-digest-bytes": {"envelope": ref if cp else _clone(child)}}}}]}}
        parent = {"SUIT_Envelope_Tagged": {"suit-authentication-wrapper": {"SuitDigest": {"suit-digest-algorithm-id": "cose-alg-sha-256", "suit-digest-bytes": "00"}}, "suit-manifest": man, "suit-integrated-dependencies": {"c.suit": ref if cp else _clone(child)}}}
        out = InputOutputMixin.prepare_suit_data(parent)
        v = cbormodel.plain_loads(out)
        embedded = None
        for k, x in v.value.items():
            if k == "c.suit":
                embedded = x
        ok = embedded is not None and embedded == alone
        # parent's digest parameter == hash (parent's algorithm) of the child's wrapped manifest - the bytes the child's own wrapper digests
        cm = e.refenc.manifest_bstr_of(alone)
        tok = e.stubs.stub_hasher(palg, cm)
        manifest = cbormodel.plain_loads([x for k, x in v.value.items() if k == 3][0])
        common = cbormodel.plain_loads([x for k, x in manifest.items() if k == 3][0])
        seq = cbormodel.plain_loads([x for k, x in common.items() if k == 4][0])
        params = seq[1]
        dg = cbormodel.plain_loads([x for k, x in params.items() if k == 3][0])
        ok = ok and dg[1] == tok
        return chx.conclude(ok)

    return harness


def build_history(L, files, gen):
    """Parent description referring to fw.bin (digest, size, payload; also from inside an inline dependency) and to child.suit
    (dependency digest + embedding by path).  `gen` numbers the file generation (contents differ between generations)."""
    fw = b"\x01" + L.raw(f"fw{gen}", 2) + (b"" if gen == 0 else b"\x02")
    files["fw.bin"] = fw
    childfile = {"SUIT_Envelope_Tagged": {"suit-authentication-wrapper": {"SuitDigest": {"suit-digest-algorithm-id": "cose-alg-sha-256", "suit-digest-bytes": "00"}}, "suit-manifest": {"suit-manifest-version": 1, "suit-manifest-sequence-number": L.uint(f"cseq{gen}", 2**32 - 1)}}}
    inline = {"SUIT_Envelope_Tagged": {"suit-authentication-wrapper": {"SuitDigest": {"suit-digest-algorithm-id": "cose-alg-sha-256", "suit-digest-bytes": "00"}}, "suit-manifest": {"suit-manifest-version": 1, "suit-manifest-sequence-number": 3, "suit-common": {"suit-shared-sequence": [{"suit-directive-override-parameters": {"suit-parameter-image-digest": {"suit-digest-algorithm-id": "cose-alg-sha-256", "suit-digest-bytes": {"file": "fw.bin"}}, "suit-parameter-image-size": {"file": "fw.bin"}}}]}}, "suit-integrated-payloads": {"#fw": "fw.bin"}}}
    palg = "cose-alg-sha-512"
    params = {"suit-parameter-image-digest": {"suit-digest-algorithm-id": palg, "suit-digest-bytes": {"file": "fw.bin"}}, "suit-parameter-image-size": {"file": "fw.bin"}}
    dparams = {"suit-parameter-image-digest": {"suit-digest-algorithm-id": palg, "suit-digest-bytes": {"envelope": "child.suit"}}, "suit-parameter-image-size": {"envelope": "child.suit"}}
    man = {"suit-manifest-version": 1, "suit-manifest-sequence-number": 9, "suit-common": {"suit-shared-sequence": [{"suit-directive-override-parameters": params}, {"suit-directive-override-parameters": dparams}]}}
    parent = {"SUIT_Envelope_Tagged": {"suit-authentication-wrapper": {"SuitDigest": {"suit-digest-algorithm-id": "cose-alg-sha-256", "suit-digest-bytes": "00"}}, "suit-manifest": man, "suit-integrated-payloads": {"#fw": "fw.bin"}, "suit-integrated-dependencies": {"c.suit": "child.suit", "i.suit": inline}}}
    return parent, childfile


def h_history(exclude=()):
    from vlib import suitenv

    e = suitenv.setup()
    from suit_generator.input_output import InputOutputMixin

    from vlib import chx

    def harness():
        suitenv.reset(e)
        L = _leaves(chx)
        from props.c02 import _clone

        ok = True
        for gen in (0, 1):
            files = {}
            parent, childfile = build_history(L, files, gen)
            files["child.suit"] = e.refenc.envelope(_clone(childfile), e.ctx)
            _add_files(e.fs, files)  # same paths, new contents
            exp = e.refenc.envelope(_clone(parent), e.ctx)
            out = InputOutputMixin.prepare_suit_data(_clone(parent))
            ok = ok and out == exp
        return chx.conclude(ok)

    return harness


# ------------------------------------------------------------------------------------------------ replay


def replay(obligation, params, cex):
    import cbor2

    import suit_generator.suit.manifest as MF
    from props.c02 import _clone
    from suit_generator.input_output import InputOutputMixin

    from vlib import refenc, suitenv

    L = _cex_leaves(cex)
    d = tempfile.mkdtemp(prefix="verif-c05r-")
    cwd = os.getcwd()
    try:
        os.chdir(d)

        def put(files):
            for n, c in files.items():
                if os.path.dirname(n):
                    os.makedirs(os.path.dirname(n), exist_ok=True)
                if os.path.lexists(n):
                    os.remove(n)
                if isinstance(c, Sym):
                    os.symlink(c.target, n)
                    continue
                with open(n, "wb" if isinstance(c, (bytes, bytearray)) else "w") as fh:
                    fh.write(c)

        ctx = suitenv.concrete_ctx()
        if obligation in ("digest_from_file", "size_from_file"):
            files = {}
            desc = build_params(L, params["what"], files)
            put(files)
            exp = refenc.dumps(refenc.parameters(_clone(desc), ctx))
            try:
                out = MF.SuitParameters.from_obj(_clone(desc)).to_cbor()
            except Exception as e:  # noqa
                return dict(reproduced=True, detail=f"raises {type(e).__name__}: {e}")
            return dict(reproduced=out != exp, detail=f"{desc!r}: real {out.hex()[:80]} reference {exp.hex()[:80]}"[:500])
        if obligation == "digest_and_size_of_envelope":
            child = _child(L, "child")
            alg = L.sel("palg", HASHES)
            if L.bool("by_path"):
                put({"child.suit": refenc.envelope(_clone(child), ctx)})
                ref = "child.suit"
            else:
                ref = child
            desc = {"suit-parameter-image-digest": {"suit-digest-algorithm-id": alg, "suit-digest-bytes": {"envelope": ref}}, "suit-parameter-image-size": {"envelope": ref}}
            exp = refenc.dumps(refenc.parameters(_clone(desc), ctx))
            try:
                out = MF.SuitParameters.from_obj(_clone(desc)).to_cbor()
            except Exception as e:  # noqa
                return dict(reproduced=True, detail=f"raises {type(e).__name__}: {e}")
            return dict(reproduced=out != exp, detail="digest/size of the dependency envelope differ from the reference" if out != exp else "equal")
        if obligation == "payload_by_path":
            files = {}
            desc, name, content = build_payload_env(L, files)
            put(files)
            try:
                out = InputOutputMixin.prepare_suit_data(_clone(desc))
            except Exception as e:  # noqa
                return dict(reproduced=True, detail=f"create raises {type(e).__name__}: {e}")
            got = cbor2.loads(out).value.get("#by-path")
            hexlike = all(ch in "0123456789abcdefABCDEF" for ch in name)
            return dict(reproduced=got != content, detail=f"payload file {name!r} holds {content.hex()}, envelope member holds {got.hex() if isinstance(got, bytes) else got!r}", finding="F6" if (got != content and hexlike) else None)
        if obligation == "history_files_replaced":
            for gen in (0, 1):
                files = {}
                parent, childfile = build_history(L, files, gen)
                files["child.suit"] = refenc.envelope(_clone(childfile), ctx)
                put(files)
                exp = refenc.envelope(_clone(parent), ctx)
                try:
                    out = InputOutputMixin.prepare_suit_data(_clone(parent))
                except Exception as e:  # noqa
                    return dict(reproduced=True, detail=f"creation {gen + 1} raises {type(e).__name__}: {e}")
                if out != exp:
                    return dict(reproduced=True, detail=f"creation {gen + 1} of 2 in one process (files replaced at the same paths in between) does not describe the current files")
            return dict(reproduced=False, detail="both creations describe the files present at their time")
        if obligation == "dependency_nesting":
            grand = _child(L, "grand", small=True)
            child = _child(L, "child")
            if L.bool("grandchild_by_path"):
                put({"grand.suit": InputOutputMixin.prepare_suit_data(_clone(grand))})
                child["SUIT_Envelope_Tagged"]["suit-integrated-dependencies"] = {"g.suit": "grand.suit"}
            else:
                child["SUIT_Envelope_Tagged"]["suit-integrated-dependencies"] = {"g.suit": grand}
            alone = InputOutputMixin.prepare_suit_data(_clone(child))
            cp = L.bool("child_by_path")
            if cp:
                put({"child.suit": alone})
            palg = L.sel("palg", ["cose-alg-sha-512", "cose-alg-shake256"])
            ref = "child.suit" if cp else child
            man = {"suit-manifest-version": 1, "suit-manifest-sequence-number": 9, "suit-common": {"suit-shared-sequence": [{"suit-directive-override-parameters": {"suit-parameter-image-digest": {"suit-digest-algorithm-id": palg, "suit-digest-bytes": {"envelope": ref if cp else _clone(child)}}}}]}}
            parent = {"SUIT_Envelope_Tagged": {"suit-authentication-wrapper": {"SuitDigest": {"suit-digest-algorithm-id": "cose-alg-sha-256", "suit-digest-bytes": "00"}}, "suit-manifest": man, "suit-integrated-dependencies": {"c.suit": ref if cp else _clone(child)}}}
            try:
                out = InputOutputMixin.prepare_suit_data(parent)
            except Exception as e:  # noqa
                return dict(reproduced=True, detail=f"create raises {type(e).__name__}: {e}")
            v = cbor2.loads(out)
            if v.value.get("c.suit") != alone:
                return dict(reproduced=True, detail="embedded dependency differs from the dependency created on its own")
            cm = cbor2.dumps(cbor2.loads(alone).value[3])
            seq = cbor2.loads(cbor2.loads(cbor2.loads(v.value[3])[3])[4])
            dg = cbor2.loads(seq[1][3])
            exp = ctx.hasher(palg, cm)
            return dict(reproduced=dg[1] != exp, detail="parent's dependency digest is not the hash of the child's wrapped manifest" if dg[1] != exp else "ok")
        return dict(reproduced=None, detail="unknown obligation")
    finally:
        os.chdir(cwd)
        import shutil

        shutil.rmtree(d, ignore_errors=True)
