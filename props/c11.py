"""C11 - payload extraction conserves payloads and leaves authenticated content intact (cmd_cache_create.py, cmd_payload_extract.py)."""
from __future__ import annotations

import os
import re
import tempfile

from vlib.ob import Ob

PROPERTY = "C11"

META = {
    "files": ["suit_generator/cmd_cache_create.py", "suit_generator/cmd_payload_extract.py"],
    "functions": [
        "suit_generator.cmd_cache_create.CacheFromEnvelope.fill_cache_from_envelope_data (recursive)",
        "suit_generator.cmd_cache_create.CacheFromEnvelope.fill_cache_from_envelope",
        "suit_generator.cmd_cache_create.main (from_envelope dispatch)",
        "suit_generator.cmd_payload_extract.main",
    ],
    "bounds": "hierarchies: flat with one symbolic member name (<= 2 chars) next to a fixed one; depth 2 and depth 3 chains with 2 string members per level "
    "(concrete names); payload contents 0x01 followed by an opaque symbolic byte (never a CBOR tag head), wrapper/manifest opaque 3 bytes; omit and dependency patterns each solver-chosen from {None, matches nothing, '.*', '#.*', 'd.*', "
    "an alternation}; a dependency that is not an envelope; single extraction: name solver-chosen from 6 representatives against two members, replace yes/no, output file yes/no",
    "stubs": [
        "cbor2 -> cbormodel (immutable tag content)",
        "CachePartition -> recorder of (uri, data) that rejects duplicate URIs like the real one (its byte layout is C10's business)",
        "open() -> in-memory files; re.fullmatch runs through CrossHair's regex model on symbolic names (concrete patterns)",
    ],
    "outside": ["regular expressions beyond the six representatives", "extraction of an absent payload with an output file requested (fh.write(None)): outside the statement, observation only"],
    "assumptions": [],
}

PATTERNS = [None, "zzz", ".*", "#.*", "d.*", "#a|#y"]
NAMES = ["#a2", "zz", "d", "dx", "#", "#y", "file.bin", "#A"]


def obligations(tier):
    return [
        Ob("flat_names", "E1", "h_cache", {"shape": "flat"}, 900, "flat envelope, second member name solver-chosen from 8 representatives, 6x6 pattern pairs", weight=100),
        Ob("flat_symbolic_name", "E1", "h_cache", {"shape": "flatsym"}, 900, "flat envelope, one symbolic member name <= 2 chars, patterns in {None, '.*'} x {None, '.*', '#.*'}", weight=100),
        Ob("depth2", "E1", "h_cache", {"shape": "d2"}, 900, "root + dependency, 6x6 pattern pairs, dependency envelope or garbage", weight=100),
        Ob("depth3", "E1", "h_cache", {"shape": "d3"}, 900, "root -> dep -> dep2, 6x6 pattern pairs", weight=120),
        Ob("cli_from_envelope", "E1", "h_cache", {"shape": "d2", "cli": True}, 900, "depth 2 through cmd_cache_create.main with files: output envelope and cache written once, errors write nothing", weight=100),
        Ob("single_extract", "E1", "h_extract", {}, 600, "payload_extract: name from 6 representatives (2 present, 4 absent), replace / output file flags", weight=40),
    ]


def _env():
    from vlib import repoenv, stubs

    repoenv.prepare_symbolic()
    import suit_generator.cmd_cache_create as CC
    import suit_generator.cmd_payload_extract as PE

    return CC, PE, stubs


class CacheRecorder:
    INSTANCES = []

    def __init__(self, eb_size=16):
        self.eb_size = eb_size
        self.slots = []
        self.saved = None
        CacheRecorder.INSTANCES.append(self)

    def add_cache_slot(self, uri, data):
        for u, _ in self.slots:
            if u == uri:
                raise ValueError("URI already exists in the cache!")
        self.slots.append((uri, data))

    def close_and_save_cache(self, output_file):
        self.saved = output_file


def matches(pat, name):
    return pat is not None and re.fullmatch(pat, name) is not None


def expected(node, omit, dep, cbormodel):
    """Reference: returns ('ok', out members list, extracted list) or ('error',)."""
    members, = (node,)
    extracted = []
    out = []
    strings = [(k, v) for k, v in members if isinstance(k, str)]
    deps = [k for k, v in strings if matches(dep, k)] if dep is not None else []
    for k, v in members:
        if not isinstance(k, str):
            out.append((k, v))
    to_extract = []
    for k, v in strings:
        if any(k == d for d in deps):
            continue
        if omit is None or not matches(omit, k):
            to_extract.append((k, encode(v, cbormodel) if isinstance(v, list) else v))
        else:
            out.append((k, v))
    extracted += to_extract
    for k, v in strings:
        if any(k == d for d in deps):
            if not isinstance(v, list):  # not an envelope (garbage bytes)
                return ("error",)
            r = expected(v, omit, dep, cbormodel)
            if r[0] == "error":
                return r
            out.append((k, ("env", r[1])))
            extracted += r[2]
    return ("ok", out, extracted)


def encode(members, cbormodel):
    from vlib.cbormodel import CBORTag, PairDict

    pairs = []
    for k, v in members:
        if isinstance(v, list):
            pairs.append((k, encode(v, cbormodel)))
        elif isinstance(v, tuple) and v and v[0] == "env":
            pairs.append((k, encode(v[1], cbormodel)))
        else:
            pairs.append((k, v))
    return cbormodel.plain_dumps(CBORTag(107, PairDict(pairs)))


def same_envelope(out_bytes, exp_members, cbormodel):
    """Order-insensitive comparison of an encoded envelope with expected members (recursively for dependencies)."""
    v = cbormodel.plain_loads(out_bytes)
    if not isinstance(v, cbormodel.CBORTag) or v.tag != 107:
        return False
    got = list(v.value.items())
    if len(got) != len(exp_members):
        return False
    for k, e in exp_members:
        found = False
        for gk, gv in got:
            if type(gk) is type(k) and gk == k or (isinstance(gk, str) and isinstance(k, str) and gk == k):
                found = True
                if isinstance(e, tuple) and e and e[0] == "env":
                    if not same_envelope(gv, e[1], cbormodel):
                        return False
                elif isinstance(e, list):
                    if not same_envelope(gv, e, cbormodel):
                        return False
                elif gv != e:
                    return False
        if not found:
            return False
    return True


def h_cache(shape="flat", cli=False, exclude=()):
    CC, PE, stubs = _env()
    from suit_generator.exceptions import GeneratorError

    from vlib import cbormodel, chx

    fs = stubs.FS()
    CC.open = fs.open
    if cli:
        CC.CachePartition = CacheRecorder

    def harness():
        cbormodel.reset()
        CacheRecorder.INSTANCES = []
        omit = chx.pick("omit", PATTERNS)
        dep = chx.pick("dep", PATTERNS)
        wrapper = chx.sym_bytes("wrapper", 3)
        manifest = chx.sym_bytes("manifest", 3)
        # payload = 0x01 followed by an opaque byte: when the dependency pattern selects a payload the tool decodes it; a
        # fully symbolic head byte forks over every CBOR type (thousands of paths), and a payload that is itself a tagged map
        # would (consistently) be processed as a dependency - the fixed head keeps "not an envelope" decidable
        p = [b"\x01" + chx.sym_bytes(f"p{i}", 1) for i in range(6)]
        if shape == "flat":
            name = chx.pick("name", NAMES)
            tree = [(2, wrapper), (3, manifest), ("#a", p[0]), (name, p[1])]
        elif shape == "flatsym":
            name = chx.sym_str("name", 2, 1)
            chx.assume(name != "#a")
            chx.assume(omit is None or omit == ".*")
            chx.assume(dep is None or dep == ".*" or dep == "#.*")
            tree = [(2, wrapper), (3, manifest), ("#a", p[0]), (name, p[1])]
        elif shape == "d2":
            garbage = chx.sym_bool("garbage")
            child = [(2, p[4]), (3, p[5]), ("#c", p[2]), ("#y", p[3])]
            tree = [(2, wrapper), (3, manifest), ("#a", p[0]), ("dep", b"\x01\x02" if garbage else child)]
        else:
            c2 = [(2, p[4]), (3, p[5]), ("#y", p[2]), ("#z", p[3])]
            c1 = [(3, manifest), ("dep2", c2), ("#x", p[1])]
            tree = [(2, wrapper), (3, manifest), ("dep", c1), ("#a", p[0])]
        in_bytes = cbormodel.dumps(cbormodel.plain_loads(encode(tree, cbormodel)))
        exp = expected(tree, omit, dep, cbormodel)
        raised = None
        out_bytes = None
        if cli:
            fs.names, fs.contents, fs.writes = [], [], []
            fs.add("in.suit", in_bytes)
            try:
                CC.main(cache_create_subcommand="from_envelope", eb_size=16, input_envelope="in.suit", output_envelope="out.suit", omit_payload_regex=omit, dependency_regex=dep, output_file="out.cache")
            except Exception as e:
                raised = type(e).__name__
            out_bytes = fs.written("out.suit")
            cache = CacheRecorder.INSTANCES[0] if CacheRecorder.INSTANCES else None
            slots = cache.slots if cache else []
        else:
            cache = CacheRecorder(16)
            try:
                out_bytes = CC.CacheFromEnvelope.fill_cache_from_envelope_data(cache, in_bytes, omit, dep)
            except GeneratorError:
                raised = "GeneratorError"
            except ValueError:
                raised = "ValueError"
            slots = cache.slots
        if exp[0] == "error":
            ok = raised is not None and (not cli or (out_bytes is None and (cache is None or cache.saved is None)))
        else:
            # duplicate URIs across levels are rejected by the cache (ValueError): also a refusal
            names = [k for k, _ in exp[2]]
            dup = False
            for i in range(len(names)):
                for j in range(i + 1, len(names)):
                    if names[i] == names[j]:
                        dup = True
            if dup:
                ok = raised is not None
            else:
                ok = raised is None and out_bytes is not None and same_envelope(out_bytes, exp[1], cbormodel) and len(slots) == len(exp[2])
                if ok:
                    for (u, d), (eu, ed) in zip(slots, exp[2]):
                        ok = ok and u == eu and d == ed
                if ok and cli:
                    ok = cache.saved == "out.cache" and len([w for w in fs.writes if w[0] == "out.suit"]) == 1
        return chx.conclude(ok, omit=omit, dep=dep, shape=shape, raised=raised, p=p, name=(name if shape.startswith("flat") else None), garbage=(garbage if shape == "d2" else None))

    return harness


def h_extract(exclude=()):
    CC, PE, stubs = _env()
    from vlib import cbormodel, chx

    fs = stubs.FS()
    PE.open = fs.open

    def harness():
        cbormodel.reset()
        name = chx.pick("payload_name", ["#a", "#b", "#c", "", "#A", "a"])
        replace = chx.sym_bool("replace")
        want_file = chx.sym_bool("output_file")
        wrapper = chx.sym_bytes("wrapper", 3)
        manifest = chx.sym_bytes("manifest", 3)
        pa, pb, rep = chx.sym_bytes("pa", 2), chx.sym_bytes("pb", 2), chx.sym_bytes("rep", 3)
        tree = [(2, wrapper), (3, manifest), ("#a", pa), ("#b", pb)]
        present = name == "#a" or name == "#b"
        if not present and want_file:
            # absent payload with an output file: fh.write(None) - outside the statement (observation)
            chx.assume(False)
        fs.names, fs.contents, fs.writes = [], [], []
        fs.add("in.suit", cbormodel.dumps(cbormodel.plain_loads(encode(tree, cbormodel))))
        fs.add("new.bin", rep)
        PE.main("in.suit", "out.suit", name, "payload.bin" if want_file else None, "new.bin" if replace else None)
        out = fs.written("out.suit")
        extracted = fs.written("payload.bin")
        exp = [(k, v) for k, v in tree if not (isinstance(k, str) and k == name)]
        if replace:
            exp.append((name, rep))
        ok = out is not None and same_envelope(out, exp, cbormodel)
        if want_file:
            ok = ok and extracted == (pa if name == "#a" else pb)
        else:
            ok = ok and extracted is None
        return chx.conclude(ok, payload_name=name, replace=replace, output_file=want_file)

    return harness


# ------------------------------------------------------------------------------------------------ replay


def replay(obligation, params, cex):
    import cbor2

    import suit_generator.cmd_cache_create as CC
    import suit_generator.cmd_payload_extract as PE

    d = tempfile.mkdtemp(prefix="verif-c11r-")
    try:
        def enc(members):
            m = {}
            for k, v in members:
                m[k] = enc(v) if isinstance(v, list) else v
            return cbor2.dumps(cbor2.CBORTag(107, m))

        def collect(b, dep_pat, depth=0):
            """(name, bytes) of every integrated payload of a hierarchy; members matched by the dependency pattern are
            envelopes to descend into, everything else is a payload (whatever its content)."""
            out = []
            e = cbor2.loads(b)
            for k, v in e.value.items():
                if isinstance(k, str):
                    if dep_pat is not None and re.fullmatch(dep_pat, k) and depth < 4:
                        out += collect(v, dep_pat, depth + 1)
                    else:
                        out.append((k, v))
            return out

        def auth(b, dep_pat, depth=0):
            out = []
            e = cbor2.loads(b)
            for k, v in e.value.items():
                if not isinstance(k, str):
                    out.append((k, v))
                elif dep_pat is not None and re.fullmatch(dep_pat, k) and depth < 4:
                    out.append((k, auth(v, dep_pat, depth + 1)))
            return out

        if obligation == "single_extract":
            name, replace, want = cex.get("payload_name", "#a"), cex.get("replace", False), cex.get("output_file", False)
            tree = [(2, b"www"), (3, b"mmm"), ("#a", b"AA"), ("#b", b"BB")]
            fin, fout, fp, fr = [os.path.join(d, x) for x in ("in.suit", "out.suit", "p.bin", "new.bin")]
            open(fin, "wb").write(enc(tree))
            open(fr, "wb").write(b"RRR")
            try:
                PE.main(fin, fout, name, fp if want else None, fr if replace else None)
            except Exception as e:  # noqa
                return dict(reproduced=True, detail=f"raises {type(e).__name__}: {e}")
            out = cbor2.loads(open(fout, "rb").read())
            exp = {k: v for k, v in tree if k != name}
            if replace:
                exp[name] = b"RRR"
            bad = dict(out.value) != exp
            if want and not bad:
                bad = open(fp, "rb").read() != dict(tree)[name]
            return dict(reproduced=bad, detail="output envelope / extracted file differ from the expectation" if bad else "ok")
        omit, dep, shape = cex.get("omit"), cex.get("dep"), cex.get("shape", params.get("shape", "flat"))
        P = [bytes([0x10 + i]) * 2 for i in range(6)]
        if shape == "flat":
            tree = [(2, b"www"), (3, b"mmm"), ("#a", P[0]), (cex.get("name", "zz"), P[1])]
        elif shape == "d2":
            child = [(2, P[4]), (3, P[5]), ("#c", P[2]), ("#y", P[3])]
            tree = [(2, b"www"), (3, b"mmm"), ("#a", P[0]), ("dep", b"\x01\x02" if cex.get("garbage") else child)]
        else:
            c2 = [(2, P[4]), (3, P[5]), ("#y", P[2]), ("#z", P[3])]
            c1 = [(3, b"mmm"), ("dep2", c2), ("#x", P[1])]
            tree = [(2, b"www"), (3, b"mmm"), ("dep", c1), ("#a", P[0])]
        inb = enc(tree)
        fin, fout, fc = [os.path.join(d, x) for x in ("in.suit", "out.suit", "out.cache")]
        open(fin, "wb").write(inb)
        try:
            CC.main(cache_create_subcommand="from_envelope", eb_size=16, input_envelope=fin, output_envelope=fout, omit_payload_regex=omit, dependency_regex=dep, output_file=fc)
        except Exception as e:  # noqa
            left = [f for f in (fout, fc) if os.path.exists(f)]
            # a refusal is legitimate for a matched dependency that is not an envelope or a URI occurring twice
            legit = type(e).__name__ in ("GeneratorError", "ValueError")
            exp = None
            return dict(reproduced=bool(left) or not legit or _must_succeed(tree, omit, dep), detail=f"raises {type(e).__name__}: {e}; files left: {left}", finding="F1" if "not a valid envelope" in str(e) and _must_succeed(tree, omit, dep) else None)
        outb = open(fout, "rb").read()
        cache_bytes = open(fc, "rb").read()
        # a cache without any slot is the lone terminator FF (the statement speaks of caches with at least one slot)
        cached = [] if cache_bytes == b"\xff" else [(k, v) for k, v in cbor2.loads(cache_bytes).items() if k != ""]
        before = sorted(collect(inb, dep))
        after = sorted(collect(outb, dep) + cached)
        if before != after:
            return dict(reproduced=True, detail=f"payloads not conserved: before {before} after {after}")
        if auth(inb, dep) != auth(outb, dep):
            return dict(reproduced=True, detail="integer-keyed members (manifest / wrapper) changed")
        # selection per the patterns at every level
        def selection(b_in, b_out, depth=0):
            ein, eout = cbor2.loads(b_in), cbor2.loads(b_out)
            for k, v in ein.value.items():
                if not isinstance(k, str):
                    continue
                is_dep = dep is not None and re.fullmatch(dep, k) is not None
                kept = k in eout.value
                if is_dep:
                    if not kept:
                        return f"dependency {k!r} missing from the output"
                    if depth < 4:
                        r = selection(v, eout.value[k], depth + 1)
                        if r:
                            return r
                else:
                    should_keep = omit is not None and re.fullmatch(omit, k) is not None
                    if kept != should_keep:
                        return f"level {depth} member {k!r}: kept={kept}, patterns say keep={should_keep}"
            return None

        r = selection(inb, outb)
        if r:
            return dict(reproduced=True, detail=r)
        return dict(reproduced=False, detail="payloads conserved and selected per the patterns")
    finally:
        import shutil

        shutil.rmtree(d, ignore_errors=True)


def _must_succeed(tree, omit, dep):
    class _M:
        pass

    r = expected(tree, omit, dep, None)
    if r[0] == "error":
        return False
    names = [k for k, _ in r[2]]
    return len(set(names)) == len(names)
