"""C15 - generated key pairs match and convert emits the exact public key (cmd_keys.py, cmd_convert.py)."""
from __future__ import annotations

import os
import re
import tempfile

from vlib.ob import Ob

PROPERTY = "C15"

CURVES = {"secp256r1": 256, "secp384r1": 384, "secp521r1": 521}
ORDER_BITS = CURVES

META = {
    "files": ["suit_generator/cmd_convert.py", "suit_generator/cmd_keys.py"],
    "engine": "E2 kernsym for the public-key bytes; E1 CrossHair for formatting and key generation wiring",
    "functions": [
        "suit_generator.cmd_convert.KeyConverter._get_public_key_data",
        "suit_generator.cmd_convert.KeyConverter._split_bytes_per_row/_format_row_of_bytes/_format_row/_prepare_array",
        "suit_generator.cmd_convert.KeyConverter.prepare_file_contents/_prepare_length_variable/_prepare_array_definition",
        "suit_generator.cmd_keys.KeyGenerator.generate_private_key/create_key_pair/_write_keypair",
        "suit_generator.cmd_keys.main",
    ],
    "bounds": "convert: X, Y any integers in [0, 2^bits) for bits in {256, 384, 521} (a superset of the curve points), raw EdDSA keys opaque 32/57 "
    "bytes; formatting: key bytes three fixed vectors per length, columns 1..12, indentation 0..6, tab/no-length/no-const flags (realized by "
    "CrossHair at range(): solver-driven enumeration); keys: 5 key types + an unknown one x 2 encodings x 2 private x 2 public formats",
    "stubs": [
        "serialization.load_pem_private_key -> stub key exposing public_key().public_numbers().x/.y as symbolic ints, curve.key_size/key_size, "
        "or (EdDSA) raising AttributeError and offering opaque raw bytes; file through the in-memory file stub",
        "ec.generate_private_key / Ed25519PrivateKey.generate / Ed448PrivateKey.generate / private_bytes / public_bytes -> recorders that "
        "enforce the library's argument contract (curve must be an EllipticCurve *instance*; PKCS1/TraditionalOpenSSL formats invalid for EdDSA); "
        "the contract is validated against the real cryptography library in stub_validation",
    ],
    "outside": [
        "that written PEM/DER files load with standard tooling and belong together cryptographically (library; exercised concretely in stub_validation only)",
        "on-curve realizability of a counterexample coordinate is shown by a deterministic replay search over private scalars, not by the solver",
    ],
    "assumptions": ["cryptography's serialization contract as validated on this run"],
    "level_text": "Symbolic interpretation of the real _get_public_key_data for every coordinate value below 2^bits: the emitted rope is proved to be "
    "fixed-width X||Y; formatting and key-generation wiring are exhausted over their (finite) option spaces with stubs at the library seam.",
    "technique": "symbolic execution of the real function AST into SMT (z3) for the key bytes; CrossHair path exhaustion with solver-chosen selectors elsewhere",
}


def obligations(tier):
    obs = [Ob("stub_validation", "V", "v_stubs", {}, 300, "key stubs' contract vs the real cryptography library; translator concrete mode", twin=False, weight=10)]
    for name, bits in CURVES.items():
        obs.append(Ob(f"pubkey_{name}", "E2", "k_pubkey", {"bits": bits}, 600, f"X,Y in [0,2^{bits}): emitted bytes are fixed-width X||Y of 2*{(bits + 7) // 8} bytes", weight=20))
    obs.append(Ob("pubkey_ed25519", "E2", "k_pubkey_raw", {"n": 32}, 120, "raw 32-byte key emitted unchanged", weight=2))
    obs.append(Ob("pubkey_ed448", "E2", "k_pubkey_raw", {"n": 57}, 120, "raw 57-byte key emitted unchanged", weight=2))
    lens = [64, 32] if tier == "quick" else [64, 96, 132, 32, 57]
    for ln in lens:
        obs.append(Ob(f"format_cols_len{ln}", "E1", "h_format", {"length": ln, "mode": "cols"}, 900, f"{ln}-byte key (3 vectors), columns 1..12, no-length/no-const flags: tokens == bytes, rows, no trailing comma, length variable", weight=150, per_path=30))
        obs.append(Ob(f"format_indent_len{ln}", "E1", "h_format", {"length": ln, "mode": "indent"}, 900, f"{ln}-byte key, indent 0..6, tab flag, length type, columns in {{1,7,12}}", weight=80, per_path=30))
    obs.append(Ob("keys_two_pairs_one_generator", "E1", "h_keys2", {}, 600, "two consecutive create_key_pair calls on ONE KeyGenerator (solver-chosen types/encodings): each public file is the public half of its own private key", weight=60))
    obs.append(Ob("keys_wiring", "E1", "h_keys", {}, 300, "6 key types x 2 encodings x 2 x 2 formats through create_key_pair/main with library stubs", weight=30))
    return obs


# ------------------------------------------------------------------------------------------------ E2: public key bytes


def _conv():
    from vlib import repoenv

    repoenv.add_repo_to_path()
    import suit_generator.cmd_convert as CV

    return CV


_ENUM_NAMES = None


def ename(x):
    """Name of a cryptography serialization enum member (Rust objects without .name in cryptography >= 42).
    Identity lookup: repr() of foreign objects yields a symbolic string under CrossHair."""
    global _ENUM_NAMES
    if _ENUM_NAMES is None:
        from cryptography.hazmat.primitives import serialization as ser

        _ENUM_NAMES = []
        for cls in (ser.Encoding, ser.PrivateFormat, ser.PublicFormat):
            for n in dir(cls):
                if not n.startswith("_"):
                    _ENUM_NAMES.append((getattr(cls, n), n))
    for member, n in _ENUM_NAMES:
        if member is x:
            return n
    return getattr(x, "name", "?")


class _Nums:
    def __init__(self, x, y):
        self.x, self.y = x, y


class _Curve:
    def __init__(self, bits):
        self.key_size = bits
        self.name = {256: "secp256r1", 384: "secp384r1", 521: "secp521r1"}[bits]


class _StubPub:
    def __init__(self, owner):
        self.o = owner
        if owner.bits:
            self.curve = owner.curve
            self.key_size = owner.bits

    def __getattr__(self, name):
        # public_numbers exists only for EC keys (cryptography: Ed25519PublicKey has no such attribute)
        if name == "public_numbers" and self.o.bits:
            return lambda: _Nums(self.o.x, self.o.y)
        raise AttributeError(name)

    def public_bytes(self, encoding=None, format=None):
        self.o.log.append(("public_bytes", ename(encoding), ename(format)))
        if self.o.bits:
            if (ename(encoding), ename(format)) == ("X962", "UncompressedPoint"):
                # 0x04 || X || Y, fixed width (SEC 1, 2.3.3)
                from vlib.ksvalues import Rope, Seg, term

                n = (self.o.bits + 7) // 8
                return Rope([Seg("const", b"\x04"), Seg("int", term(self.o.x), n, "big"), Seg("int", term(self.o.y), n, "big")])
            raise ValueError("EC keys do not support this encoding/format in the stub")
        return self.o.raw


class _StubPriv:
    def __init__(self, bits, x=None, y=None, raw=None):
        self.bits, self.x, self.y, self.raw = bits, x, y, raw
        self.log = []
        if bits:
            self.curve = _Curve(bits)
            self.key_size = bits

    def public_key(self):
        return _StubPub(self)


def _run_pubkey(CV, key, pem_name="key.pem"):
    from vlib import kernsym as K
    from vlib import ksmodels as KM
    from vlib.ksvalues import Obj, Rope, Seg
    from vlib.repoenv import REPO

    enc = set()

    def run(ctx):
        fs = KM.KFS(ctx, {pem_name: Rope([Seg("opaque", "PEM", 300)])})
        models = dict(K.BASE_MODELS)
        models[open] = fs.model_open

        def load(it, args, kwargs):
            data = kwargs.get("data", args[0] if args else None)
            ok = isinstance(data, Rope) and len(data.segs) == 1 and data.segs[0].a == "PEM"
            ctx.log.append(("load_pem", ok, kwargs.get("password", "missing")))
            return key

        models[CV.serialization.load_pem_private_key] = load
        it = K.Interp(ctx, [REPO], models=models)
        o = Obj(CV.KeyConverter)
        o._attrs["_input_file"] = pem_name
        r = it.call_function(CV.KeyConverter._get_public_key_data, [o], {}, CV.KeyConverter)
        enc.update(it.encoded)
        return r

    return run, enc


def k_pubkey(bits=256, exclude=()):
    import time

    import z3

    from vlib import kernsym as K
    from vlib.ksvalues import Rope, SInt

    CV = _conv()
    t0 = time.time()
    x, y = z3.Int("X"), z3.Int("Y")
    n = (bits + 7) // 8
    key = _StubPriv(bits, SInt(x), SInt(y))
    run, enc = _run_pubkey(CV, key)
    paths = K.explore(run, [x >= 0, x < 2**bits, y >= 0, y < 2**bits])
    vpp = []
    samples = []
    for p in paths:
        if p.outcome != "ret":
            vpp.append((p, [(f"no exception for a valid key ({type(p.value).__name__})", z3.BoolVal(False))]))
            continue
        segs = [sg for sg in Rope.of(p.value).segs if not (sg.kind == "int" and isinstance(sg.b, int) and sg.b == 0)]
        ok = len(segs) == 2 and all(s.kind == "int" and s.c == "big" for s in segs)
        vcs = [("output is two big-endian integer fields", z3.BoolVal(ok)), ("key file content handed to the PEM loader", z3.BoolVal(any(e[0] == "load_pem" and e[1] for e in p.log)))]
        if ok:
            vcs.append(("first field is X", z3.simplify(segs[0].a - x) == 0 if True else None))
            vcs.append(("second field is Y", z3.simplify(segs[1].a - y) == 0))
            w0 = segs[0].b if not isinstance(segs[0].b, int) else z3.IntVal(segs[0].b)
            w1 = segs[1].b if not isinstance(segs[1].b, int) else z3.IntVal(segs[1].b)
            vcs.append((f"X field is {n} bytes wide", w0 == n))
            vcs.append((f"Y field is {n} bytes wide", w1 == n))
        vpp.append((p, vcs))
        samples.append("ret " + repr(p.value)[:200])

    def cex(p, m):
        g = lambda v: m.eval(v, model_completion=True).as_long() if m is not None else 0  # noqa
        return {"bits": bits, "x_bytes": (g(x).bit_length() + 7) // 8, "y_bytes": (g(y).bit_length() + 7) // 8, "x": str(g(x)), "y": str(g(y))}

    from props.c10 import _finish

    res = _finish(K, vpp, paths, t0, samples, cex, prefer=(x >= 2 ** (8 * (n - 1)), y >= 2 ** (8 * (n - 1))))
    res["functions"] = sorted(enc)
    if res["verdict"] == "CONFIRMED" and not any(p.outcome == "ret" for p in paths):
        res["verdict"] = "VACUOUS"
    return res


def k_pubkey_raw(n=32, exclude=()):
    import time

    import z3

    from vlib import kernsym as K
    from vlib.ksvalues import Rope, Seg

    CV = _conv()
    t0 = time.time()
    key = _StubPriv(0, raw=Rope([Seg("opaque", "RAW", n)]))
    run, enc = _run_pubkey(CV, key)
    paths = K.explore(run)
    vpp = []
    for p in paths:
        if p.outcome != "ret":
            vpp.append((p, [(f"no exception for a valid key ({type(p.value).__name__})", z3.BoolVal(False))]))
            continue
        segs = list(Rope.of(p.value).segs)
        ok = len(segs) == 1 and segs[0].kind == "opaque" and segs[0].a == "RAW" and segs[0].b == n
        vpp.append((p, [("raw public key emitted unchanged", z3.BoolVal(ok)), ("Raw/Raw serialisation requested", z3.BoolVal(("public_bytes", "Raw", "Raw") in key.log))]))
    from props.c10 import _finish

    res = _finish(K, vpp, paths, t0, ["ret opaque(RAW)"], lambda p, m: {"raw": n})
    res["functions"] = sorted(enc)
    if res["verdict"] == "CONFIRMED" and not paths:
        res["verdict"] = "VACUOUS"
    return res


# ------------------------------------------------------------------------------------------------ E1: formatting


def _vectors(length):
    return [bytes(range(1, length + 1)), bytes([0] * (length - 1) + [0xFF]), bytes((i * 37 + 0xA5) & 0xFF for i in range(length))]


def tokenize(text):
    """Independent reader of the produced C text: array body bytes and structure facts."""
    m = re.search(r"\{\n(.*?)\n\};\n", text, re.S)
    if not m:
        return None
    body = m.group(1)
    toks = re.findall(r"0x([0-9a-fA-F]{2})", body)
    return bytes(int(t, 16) for t in toks), body


def check_text(text, key, columns, indent_count, tab, no_length, no_const, array_type="uint8_t", array_name="key", length_type="size_t", length_name="key_len"):
    """None if the text is the specified rendering, else a description."""
    r = tokenize(text)
    if r is None:
        return "no array body"
    data, body = r
    if data != key:
        return "array bytes differ from the public key"
    lines = body.split("\n")
    ind = ("\t" if tab else " ") * indent_count
    for i, ln in enumerate(lines):
        if not ln.startswith(ind) or (ln[len(ind) : len(ind) + 2] != "0x"):
            return f"row {i} indentation"
        n = len(re.findall(r"0x", ln))
        want = columns if i < len(lines) - 1 else (len(key) - columns * (len(lines) - 1))
        if n != want:
            return f"row {i} has {n} bytes, expected {want}"
    if body.rstrip().endswith(","):
        return "trailing comma after the last byte"
    if re.sub(r"0x[0-9a-f]{2}", "", body).replace(",", "").strip(" \t\n") != "":
        return "unexpected characters in the array body"
    head = text[: text.index("{\n")]
    exp_head = ("" if no_const else "const ") + f"{array_type} {array_name}[] = "
    if head != exp_head:
        return f"array definition {head!r}"
    tail = text[text.index("};\n") + 3 :]
    if no_length:
        exp_tail = ""
    else:
        cast = "" if length_type == "size_t" else f"({length_type}) "
        exp_tail = "\n" + ("" if no_const else "const ") + f"{length_type} {length_name} = {cast}sizeof({array_name});\n"
    if tail != exp_tail:
        return f"length variable text {tail!r}"
    return None


def h_format(length=64, mode="cols", exclude=()):
    from vlib import repoenv

    repoenv.prepare_symbolic(model_cbor=False)
    import suit_generator.cmd_convert as CV

    from vlib import chx

    vecs = _vectors(length)

    def harness():
        if mode == "cols":
            cols = chx.sym_int("columns", 1, 12)
            ind, tab, lt = 4, False, "size_t"
            nol = chx.sym_bool("no_length")
            noc = chx.sym_bool("no_const")
            vi = chx.sym_int("vector", 0, len(vecs) - 1)
        else:
            cols = chx.pick("columns", [1, 7, 12])
            ind = chx.sym_int("indent", 0, 6)
            tab = chx.sym_bool("tab")
            nol, noc, vi = False, False, 2
            lt = chx.pick("length_type", ["size_t", "uint32_t"])
        key = vecs[0] if vi == 0 else (vecs[1] if vi == 1 else vecs[2])
        kc = CV.KeyConverter.__new__(CV.KeyConverter)
        kc._array_type, kc._array_name, kc._length_type, kc._length_name = "uint8_t", "key", lt, "key_len"
        kc._columns_count, kc._header_file, kc._footer_file = cols, None, None
        kc._no_length, kc._no_const = nol, noc
        kc._indentation_character = "\t" if tab else " "
        kc._indentation_count = ind
        kc._indentation = kc._indentation_character * kc._indentation_count
        kc._get_public_key_data = lambda: key
        text = kc.prepare_file_contents()
        bad = check_text(text, key, cols, ind, tab, nol, noc, length_type=lt)
        return chx.conclude(bad is None, columns=cols, indent=ind, tab=tab, no_length=nol, no_const=noc, vector=vi, length_type=lt, length=length)

    return harness


# ------------------------------------------------------------------------------------------------ E1: keys wiring


KEY_TYPES = ["secp256r1", "secp384r1", "secp521r1", "ed25519", "ed448", "rsa2048"]
COMBOS = [(kt, enc, pf, uf, vm) for kt in KEY_TYPES for enc in ("pem", "der") for pf in ("pkcs1", "pkcs8") for uf in ("default", "pkcs1") for vm in (False, True)]


class _GenPriv:
    """Stub private key enforcing cryptography's serialisation contract (validated in v_stubs)."""

    def __init__(self, kind, log):
        self.kind, self.log = kind, log

    def public_key(self):
        return _GenPub(self)

    def private_bytes(self, encoding, format, encryption_algorithm):
        self.log.append(("private_bytes", id(self), ename(encoding), ename(format), type(encryption_algorithm).__name__))
        if self.kind.startswith("ed") and ename(format) == "TraditionalOpenSSL":
            raise ValueError("format is invalid with this key")
        return ("PRIV", id(self), ename(encoding), ename(format))


class _GenPub:
    def __init__(self, priv):
        self.priv = priv

    def public_bytes(self, encoding, format):
        self.priv.log.append(("public_bytes", id(self.priv), ename(encoding), ename(format)))
        if ename(format) == "PKCS1":
            raise ValueError("format is invalid with this key")
        return ("PUB", id(self.priv), ename(encoding), ename(format))


def h_keys(exclude=()):
    from vlib import repoenv

    repoenv.prepare_symbolic(model_cbor=False)
    import suit_generator.cmd_keys as CK
    from cryptography.hazmat.primitives.asymmetric import ec as real_ec
    from suit_generator.exceptions import GeneratorError

    from vlib import chx

    log = []

    class EcProxy:
        SECP256R1, SECP384R1, SECP521R1 = real_ec.SECP256R1, real_ec.SECP384R1, real_ec.SECP521R1

        @staticmethod
        def generate_private_key(curve, backend=None):
            # cryptography >= 42: "curve must be an EllipticCurve instance"
            if not isinstance(curve, real_ec.EllipticCurve):
                raise TypeError("curve must be an EllipticCurve instance")
            k = _GenPriv(curve.name, log)
            log.append(("generate", id(k), curve.name))
            return k

    class Ed25519Proxy:
        @staticmethod
        def generate():
            k = _GenPriv("ed25519", log)
            log.append(("generate", id(k), "ed25519"))
            return k

    class Ed448Proxy:
        @staticmethod
        def generate():
            k = _GenPriv("ed448", log)
            log.append(("generate", id(k), "ed448"))
            return k

    CK.ec = EcProxy
    CK.Ed25519PrivateKey = Ed25519Proxy
    CK.Ed448PrivateKey = Ed448Proxy
    writes = []

    def fake_write(self, data, file_name):
        writes.append((file_name, data))

    CK.KeyGenerator._write = fake_write
    ENC = {"pem": "PEM", "der": "DER"}
    PRIV = {"pkcs1": "TraditionalOpenSSL", "pkcs8": "PKCS8"}
    PUB = {"default": "SubjectPublicKeyInfo", "pkcs1": "PKCS1"}

    def harness():
        del log[:]
        del writes[:]
        combo = chx.pick("combo", COMBOS)
        kt, enc, pf, uf, via_main = combo
        outcome = "ok"
        try:
            if via_main:
                CK.main("pfx", kt, enc, pf, uf, "none")
            else:
                CK.KeyGenerator().create_key_pair("pfx", kt, enc, pf, uf, "none")
        except GeneratorError:
            outcome = "generator_error"
        except TypeError:
            outcome = "type_error"
        except Exception:
            outcome = "other"
        supported_type = kt != "rsa2048"
        invalid_combo = (kt in ("ed25519", "ed448") and pf == "pkcs1") or uf == "pkcs1"
        if not supported_type:
            # unknown key type: any error, nothing written
            ok = outcome != "ok" and not writes
        elif invalid_combo:
            ok = outcome == "generator_error" and not writes
        else:
            gens = [e for e in log if e[0] == "generate"]
            ok = outcome == "ok" and len(gens) == 1 and gens[0][2] == kt and len(writes) == 2
            if ok:
                kid = gens[0][1]
                (n1, d1), (n2, d2) = writes
                ok = (
                    n1 == f"pfx_priv.{enc}"
                    and n2 == f"pfx_pub.{enc}"
                    and d1 == ("PRIV", kid, ENC[enc], PRIV[pf])
                    and d2 == ("PUB", kid, ENC[enc], PUB[uf])
                    and ("private_bytes", kid, ENC[enc], PRIV[pf], "NoEncryption") in log
                )
        return chx.conclude(ok, key_type=kt, encoding=enc, private_format=pf, public_format=uf, via_main=via_main, outcome=outcome)

    return harness


def h_keys2(exclude=()):
    """History of two calls on one object (a stale cached public key would pair the wrong files)."""
    from vlib import repoenv

    repoenv.prepare_symbolic(model_cbor=False)
    import suit_generator.cmd_keys as CK
    from cryptography.hazmat.primitives.asymmetric import ec as real_ec

    from vlib import chx

    log = []

    class EcProxy:
        SECP256R1, SECP384R1, SECP521R1 = real_ec.SECP256R1, real_ec.SECP384R1, real_ec.SECP521R1

        @staticmethod
        def generate_private_key(curve, backend=None):
            if not isinstance(curve, real_ec.EllipticCurve):
                raise TypeError("curve must be an EllipticCurve instance")
            k = _GenPriv(curve.name, log)
            log.append(("generate", id(k), curve.name))
            return k

    def edproxy(kind):
        class P:
            @staticmethod
            def generate():
                k = _GenPriv(kind, log)
                log.append(("generate", id(k), kind))
                return k

        return P

    CK.ec = EcProxy
    CK.Ed25519PrivateKey = edproxy("ed25519")
    CK.Ed448PrivateKey = edproxy("ed448")
    writes = []
    CK.KeyGenerator._write = lambda self, data, file_name: writes.append((file_name, data))
    types = ["secp256r1", "ed25519", "ed448", "secp521r1"]

    def harness():
        del log[:]
        del writes[:]
        t1 = chx.pick("type1", types)
        t2 = chx.pick("type2", types)
        e1 = chx.pick("enc1", ["pem", "der"])
        e2 = chx.pick("enc2", ["pem", "der"])
        g = CK.KeyGenerator()
        g.create_key_pair("a", t1, e1, "pkcs8", "default", "none")
        g.create_key_pair("b", t2, e2, "pkcs8", "default", "none")
        gens = [e for e in log if e[0] == "generate"]
        ok = len(gens) == 2 and gens[0][2] == t1 and gens[1][2] == t2 and len(writes) == 4
        if ok:
            k1, k2 = gens[0][1], gens[1][1]
            ok = (
                writes[0] == (f"a_priv.{e1}", ("PRIV", k1, e1.upper(), "PKCS8"))
                and writes[1] == (f"a_pub.{e1}", ("PUB", k1, e1.upper(), "SubjectPublicKeyInfo"))
                and writes[2] == (f"b_priv.{e2}", ("PRIV", k2, e2.upper(), "PKCS8"))
                and writes[3] == (f"b_pub.{e2}", ("PUB", k2, e2.upper(), "SubjectPublicKeyInfo"))
            )
        return chx.conclude(ok, type1=t1, type2=t2, enc1=e1, enc2=e2)

    return harness


# ------------------------------------------------------------------------------------------------ validation / replay


def _find_key_with_short_coord(bits, want_x_bytes, want_y_bytes, cap=600000):
    """Deterministic search d = 1, 2, ... for a real key whose X (or Y) needs fewer bytes than the field width."""
    from cryptography.hazmat.primitives.asymmetric import ec

    curve = {256: ec.SECP256R1(), 384: ec.SECP384R1(), 521: ec.SECP521R1()}[bits]
    n = (bits + 7) // 8
    for d in range(1, cap):
        k = ec.derive_private_key(d, curve)
        nums = k.public_key().public_numbers()
        xb, yb = (nums.x.bit_length() + 7) // 8, (nums.y.bit_length() + 7) // 8
        # same class as the solver's counterexample: every coordinate that is short there is short here
        if (want_x_bytes >= n or xb < n) and (want_y_bytes >= n or yb < n):
            return k, d
    return None, None


def _real_pubkey_bytes(CV, key, d):
    from cryptography.hazmat.primitives import serialization as ser

    pem = key.private_bytes(ser.Encoding.PEM, ser.PrivateFormat.PKCS8, ser.NoEncryption())
    p = os.path.join(d, "k.pem")
    open(p, "wb").write(pem)
    kc = CV.KeyConverter(p, os.path.join(d, "o.c"), "uint8_t", "key", "size_t", "key_len", 8, None, None, 4, False, False, False)
    return kc._get_public_key_data(), kc


def v_stubs():
    """(1) the library contract the key stubs enforce, against the real cryptography; (2) kernsym concrete mode vs the real
    _get_public_key_data on real keys (same repository code on both sides)."""
    import z3  # noqa
    from cryptography.hazmat.primitives import serialization as ser
    from cryptography.hazmat.primitives.asymmetric import ec, ed448, ed25519

    from vlib import kernsym as K
    from vlib.ksvalues import Rope

    CV = _conv()
    n = 0
    bad = []
    # (1) contract
    try:
        ec.generate_private_key(ec.SECP256R1)
        bad.append("generate_private_key accepts a curve class")
    except TypeError:
        pass
    n += 1
    for k, kind in ((ec.generate_private_key(ec.SECP256R1()), "ec"), (ed25519.Ed25519PrivateKey.generate(), "ed"), (ed448.Ed448PrivateKey.generate(), "ed")):
        for encn, enc in (("PEM", ser.Encoding.PEM), ("DER", ser.Encoding.DER)):
            for fmt in (ser.PrivateFormat.TraditionalOpenSSL, ser.PrivateFormat.PKCS8):
                n += 1
                try:
                    k.private_bytes(enc, fmt, ser.NoEncryption())
                    real_ok = True
                except ValueError:
                    real_ok = False
                stub_ok = not (kind == "ed" and ename(fmt) == "TraditionalOpenSSL")
                if real_ok != stub_ok:
                    bad.append(("private_bytes contract", kind, encn, ename(fmt), real_ok))
            for fmt in (ser.PublicFormat.SubjectPublicKeyInfo, ser.PublicFormat.PKCS1):
                n += 1
                try:
                    k.public_key().public_bytes(enc, fmt)
                    real_ok = True
                except ValueError:
                    real_ok = False
                if real_ok != (ename(fmt) != "PKCS1"):
                    bad.append(("public_bytes contract", kind, encn, ename(fmt), real_ok))
        n += 1
        has = hasattr(k.public_key(), "public_numbers")
        if has != (kind == "ec"):
            bad.append(("public_numbers presence", kind, has))
    # (2) translator
    d = tempfile.mkdtemp(prefix="verif-c15-")
    try:
        for key in (ec.derive_private_key(1, ec.SECP256R1()), ec.derive_private_key(5, ec.SECP384R1()), ec.derive_private_key(7, ec.SECP521R1()), ed25519.Ed25519PrivateKey.generate(), ed448.Ed448PrivateKey.generate()):
            real, kc = _real_pubkey_bytes(CV, key, d)
            if isinstance(key, ec.EllipticCurvePrivateKey):
                nums = key.public_key().public_numbers()
                stub = _StubPriv(key.curve.key_size, nums.x, nums.y)
            else:
                stub = _StubPriv(0, raw=key.public_key().public_bytes(ser.Encoding.Raw, ser.PublicFormat.Raw))
            run, enc = _run_pubkey(CV, stub)

            def run2(ctx, run=run):
                return run(ctx)

            ps = K.explore(run2)
            n += 1
            v = ps[0].value if ps and ps[0].outcome == "ret" else None
            from vlib.ksvalues import concretize

            mine = v if isinstance(v, bytes) else (concretize(v) if v is not None else None)
            if len(ps) != 1 or mine != real:
                bad.append(("translator", type(key).__name__, real.hex()[:20], mine.hex()[:20] if mine else None))
    finally:
        import shutil

        shutil.rmtree(d, ignore_errors=True)
    return dict(verdict="CONFIRMED" if not bad else "ERROR", paths=n, validated=n, message=("stub contract / translator validation failed: " + repr(bad[:4])) if bad else "")


def replay(obligation, params, cex):
    CV = _conv()
    d = tempfile.mkdtemp(prefix="verif-c15r-")
    try:
        if obligation.startswith("pubkey_secp"):
            bits = cex["bits"]
            n = (bits + 7) // 8
            if cex.get("x_bytes", n) >= n and cex.get("y_bytes", n) >= n:
                # full-width counterexample: search a real key whose X and Y have the same leading bytes as the solver's
                # values (a value-dependent defect, e.g. a leading 0x04), falling back to any key
                from cryptography.hazmat.primitives.asymmetric import ec

                curve = {256: ec.SECP256R1(), 384: ec.SECP384R1(), 521: ec.SECP521R1()}[bits]
                tx = int(cex.get("x", "0")) >> (8 * (n - 1))
                key = None
                for dsc in range(1, 4000):
                    k = ec.derive_private_key(dsc, curve)
                    if k.public_key().public_numbers().x >> (8 * (n - 1)) == tx:
                        key = k
                        break
                if key is None:
                    key = ec.derive_private_key(3, curve)
            else:
                key, scalar = _find_key_with_short_coord(bits, cex.get("x_bytes", n), cex.get("y_bytes", n))
                if key is None:
                    return dict(reproduced=None, detail="no real key of the counterexample's class found within the search cap")
            try:
                out, kc = _real_pubkey_bytes(CV, key, d)
            except Exception as e:  # noqa
                return dict(reproduced=True, detail=f"raises {type(e).__name__}: {e}", finding=None)
            nums = key.public_key().public_numbers()
            exp = nums.x.to_bytes(n, "big") + nums.y.to_bytes(n, "big")
            return dict(reproduced=out != exp, detail=f"emitted {len(out)} bytes, expected {2 * n} (X needs {(nums.x.bit_length() + 7) // 8}, Y needs {(nums.y.bit_length() + 7) // 8} bytes)", finding="F3" if len(out) < 2 * n else None)
        if obligation.startswith("pubkey_ed"):
            from cryptography.hazmat.primitives import serialization as ser
            from cryptography.hazmat.primitives.asymmetric import ed448, ed25519

            key = ed25519.Ed25519PrivateKey.generate() if cex.get("raw") == 32 else ed448.Ed448PrivateKey.generate()
            try:
                out, kc = _real_pubkey_bytes(CV, key, d)
            except Exception as e:  # noqa
                return dict(reproduced=True, detail=f"raises {type(e).__name__}: {e}")
            exp = key.public_key().public_bytes(ser.Encoding.Raw, ser.PublicFormat.Raw)
            return dict(reproduced=out != exp, detail=f"{len(out)} bytes")
        if obligation.startswith("format_"):
            key = _vectors(cex["length"])[cex["vector"]]
            kc = CV.KeyConverter.__new__(CV.KeyConverter)
            kc._array_type, kc._array_name, kc._length_type, kc._length_name = "uint8_t", "key", cex["length_type"], "key_len"
            kc._columns_count, kc._header_file, kc._footer_file = cex["columns"], None, None
            kc._no_length, kc._no_const = cex["no_length"], cex["no_const"]
            kc._indentation_character = "\t" if cex["tab"] else " "
            kc._indentation_count = cex["indent"]
            kc._indentation = kc._indentation_character * kc._indentation_count
            kc._get_public_key_data = lambda: key
            try:
                text = kc.prepare_file_contents()
            except Exception as e:  # noqa
                return dict(reproduced=True, detail=f"raises {type(e).__name__}: {e}")
            bad = check_text(text, key, cex["columns"], cex["indent"], cex["tab"], cex["no_length"], cex["no_const"], length_type=cex["length_type"])
            return dict(reproduced=bad is not None, detail=bad or "text is the specified rendering")
        if obligation == "keys_two_pairs_one_generator":
            import suit_generator.cmd_keys as CK
            from cryptography.hazmat.primitives import serialization as ser

            g = CK.KeyGenerator()
            try:
                g.create_key_pair(os.path.join(d, "a"), cex["type1"], cex["enc1"], "pkcs8", "default", "none")
                g.create_key_pair(os.path.join(d, "b"), cex["type2"], cex["enc2"], "pkcs8", "default", "none")
            except Exception as e:  # noqa
                return dict(reproduced=True, detail=f"raises {type(e).__name__}: {e}")
            bad = None
            for pfx, enc in (("a", cex["enc1"]), ("b", cex["enc2"])):
                lp = ser.load_pem_private_key if enc == "pem" else ser.load_der_private_key
                lu = ser.load_pem_public_key if enc == "pem" else ser.load_der_public_key
                try:
                    priv = lp(open(os.path.join(d, f"{pfx}_priv.{enc}"), "rb").read(), None)
                    pub = lu(open(os.path.join(d, f"{pfx}_pub.{enc}"), "rb").read())
                    if priv.public_key().public_bytes(ser.Encoding.DER, ser.PublicFormat.SubjectPublicKeyInfo) != pub.public_bytes(ser.Encoding.DER, ser.PublicFormat.SubjectPublicKeyInfo):
                        bad = f"pair {pfx}: public file is not the public half of the private file"
                except Exception as e:  # noqa
                    bad = f"pair {pfx}: {type(e).__name__}: {e}"
            return dict(reproduced=bad is not None, detail=bad or "both pairs belong together")
        if obligation == "keys_wiring":
            import suit_generator.cmd_keys as CK
            from cryptography.hazmat.primitives import serialization as ser
            from suit_generator.exceptions import GeneratorError

            kt, enc, pf, uf = cex["key_type"], cex["encoding"], cex["private_format"], cex["public_format"]
            pfx = os.path.join(d, "k")
            try:
                if cex.get("via_main"):
                    CK.main(pfx, kt, enc, pf, uf, "none")
                else:
                    CK.KeyGenerator().create_key_pair(pfx, kt, enc, pf, uf, "none")
                outcome = "ok"
            except GeneratorError:
                outcome = "generator_error"
            except Exception as e:  # noqa
                outcome = type(e).__name__
            files = sorted(os.listdir(d))
            supported_type = kt != "rsa2048"
            invalid_combo = (kt in ("ed25519", "ed448") and pf == "pkcs1") or uf == "pkcs1"
            if not supported_type:
                rep = outcome == "ok" or bool(files)
                return dict(reproduced=rep, detail=f"unknown type: {outcome}, files {files}")
            if invalid_combo:
                rep = outcome != "generator_error" or bool(files)
                return dict(reproduced=rep, detail=f"invalid combination: {outcome}, files {files}")
            if outcome != "ok":
                return dict(reproduced=True, detail=f"supported combination {kt}/{enc}/{pf}/{uf} fails with {outcome}", finding="F2" if outcome == "TypeError" and kt.startswith("secp") else None)
            try:
                load_priv = ser.load_pem_private_key if enc == "pem" else ser.load_der_private_key
                load_pub = ser.load_pem_public_key if enc == "pem" else ser.load_der_public_key
                priv = load_priv(open(f"{pfx}_priv.{enc}", "rb").read(), None)
                pub = load_pub(open(f"{pfx}_pub.{enc}", "rb").read())
                same = priv.public_key().public_bytes(ser.Encoding.DER, ser.PublicFormat.SubjectPublicKeyInfo) == pub.public_bytes(ser.Encoding.DER, ser.PublicFormat.SubjectPublicKeyInfo)
            except Exception as e:  # noqa
                return dict(reproduced=True, detail=f"written files do not load: {type(e).__name__}: {e}")
            return dict(reproduced=not same, detail="files load and belong together" if same else "public file is not the public half of the private file")
        return dict(reproduced=None, detail="unknown obligation")
    finally:
        import shutil

        shutil.rmtree(d, ignore_errors=True)
