"""C01 - created envelopes carry correct manifest and severed-member digests (suit/envelope.py, input_output.py, suit/security.py)."""
from __future__ import annotations

from vlib.ob import Ob

PROPERTY = "C01"

META = {
    "files": ["suit_generator/suit/envelope.py", "suit_generator/input_output.py", "suit_generator/suit/security.py"],
    "functions": [
        "suit_generator.input_output.InputOutputMixin.prepare_suit_data",
        "suit_generator.suit.envelope.SuitBasicEnvelopeOperationsMixin.update_digest/get_manifest_digest/update_severable_digests/return_processed_binary_data",
        "suit_generator.suit.security.SuitHash.__init__/hash (algorithm table) + SuitDigestExt.from_obj",
        "SuitEnvelopeTagged.from_obj/to_cbor and the node classes below",
    ],
    "bounds": "per severable member (payload-fetch, install, install-legacy, dependency-resolution, candidate-verification, text) x state in {severed and present, severed and missing "
    "from the envelope, inline in the manifest}: wrapper algorithm and member algorithm each any of the 5 (solver-chosen), sequence number any uint64, a symbolic index inside the "
    "severed member, supplied digests opaque 4 bytes; all five severed at once; manifest byte-string header widths at 23/24 and 255/256 (quick) and 65535/65536 (thorough) through a "
    "concrete-length reference URI with symbolic sequence number; integrated dependency envelopes at depth 1 and 2",
    "stubs": ["hashes.Hash -> congruent token stub with argument log (the repository's own algorithm table stays in the loop: logged name and digest size are asserted against the registry)", "cbor2 -> cbormodel; hex provenance pair"],
    "outside": ["hash function internals (library)", "manifests of symbolic length beyond the listed boundary sizes"],
    "assumptions": ["collision-freeness of the hash (distinct inputs get distinct tokens)"],
}

MEMBERS = ["suit-payload-fetch", "suit-install", "suit-install-legacy", "suit-dependency-resolution", "suit-candidate-verification", "suit-text"]
CODES = {"suit-payload-fetch": 16, "suit-install": 20, "suit-install-legacy": 17, "suit-dependency-resolution": 15, "suit-candidate-verification": 18, "suit-text": 23}
HASHES = ["cose-alg-sha-256", "cose-alg-shake128", "cose-alg-sha-384", "cose-alg-sha-512", "cose-alg-shake256"]


def obligations(tier):
    obs = []
    for m in MEMBERS:
        short = m.replace("suit-", "")
        # split on the wrapper algorithm (quick: SHA-256 and SHAKE128 - the two digest lengths; thorough: all five)
        for w in ((0, 1) if tier == "quick" else range(len(HASHES))):
            obs.append(Ob(f"{short}_severed_present_w{w}", "E1", "h_member", {"member": m, "state": "present", "fix": {"walg": w}}, 900, f"wrapper algorithm {HASHES[w]} x 5 member algorithms, seq uint64, member index symbolic", weight=100))
        obs.append(Ob(f"{short}_severed_missing", "E1", "h_member", {"member": m, "state": "missing"}, 900, "digest in the manifest, member absent from the envelope: supplied digest kept, wrapper digest correct", weight=60))
        if m != "suit-text":
            obs.append(Ob(f"{short}_inline", "E1", "h_member", {"member": m, "state": "inline"}, 900, "sequence inline in the manifest: only the wrapper digest", weight=40))
    for i, m in enumerate(MEMBERS):
        obs.append(Ob(f"pair_missing_present_{i}", "E1", "h_pair", {"fix": {"absent_member": i}}, 1200, f"{m} referenced by digest but absent from the envelope, each other severable member (solver-chosen) severed and present with a stale supplied digest, either description order; supplied digests symbolic", weight=120))
    obs.append(Ob("member_state_subsets", "E1", "h_subsets", {"deep": tier == "thorough"}, 1800, "each severable member independently present or referenced-but-absent (quick: 4 members = 16 subsets, thorough: all 6 = 64), stale supplied digests", weight=150))
    obs.append(Ob("wrapper_with_signature_blocks", "E1", "h_signed", {}, 900, "authentication wrapper that already carries 0..2 COSE_Sign1 blocks (empty or non-empty signature bytes, symbolic) next to a stale supplied digest: 5 algorithms", weight=80))
    obs.append(Ob("all_severed", "E1", "h_all", {}, 900, "all severable members severed and present at once, wrapper algorithm symbolic", weight=100))
    obs.append(Ob("length_boundaries_small", "E1", "h_boundary", {"sizes": [23, 24, 255, 256]}, 900, "manifest wrapped length across 23/24 and 255/256 with symbolic sequence number", weight=100))
    # block-wise processing boundaries: wrapped manifest (content + 3-byte head) of exactly 2^k bytes and its neighbours for the
    # smallest sequence-number encoding; wider encodings shift the length by 1, 2, 4, 8
    blocks = [2**k - 3 + dlt for k in ((9, 12) if tier == "quick" else (6, 7, 8, 9, 10, 11, 12, 13)) for dlt in (-1, 0, 1)]
    obs.append(Ob("length_block_multiples", "E1", "h_boundary", {"sizes": blocks}, 1500, "manifest wrapped length at powers of two (512, 4096; thorough: 64..8192) and +-1, symbolic sequence number", weight=150))
    if tier == "thorough":
        obs.append(Ob("length_boundaries_64k", "E1", "h_boundary", {"sizes": [65535, 65536]}, 3000, "manifest wrapped length across 65535/65536", weight=500))
    obs.append(Ob("nested_dependencies", "E1", "h_nested", {}, 900, "integrated dependency envelopes inline at depth 1 and 2: every level's digests", weight=100))
    return obs


def check_envelope(out_bytes, cbormodel, hashlog, R, supplied=()):
    """Independent walk of the produced bytes.  Returns a (possibly symbolic) bool."""
    v = cbormodel.plain_loads(out_bytes)
    if not isinstance(v, cbormodel.CBORTag) or v.tag != 107:
        return False
    members = list(v.value.items())
    man_b = None
    wrap_b = None
    for k, x in members:
        if k == 3:
            man_b = x
        elif k == 2:
            wrap_b = x
    if man_b is None or wrap_b is None:
        return False
    inv = {c: n for n, c in R.HASH_ALGS.items()}
    ok = True
    wrapper = cbormodel.plain_loads(wrap_b)
    dg = cbormodel.plain_loads(wrapper[0])
    ok = ok and _digest_ok(dg, cbormodel.plain_dumps(man_b), hashlog, inv, R, supplied)
    manifest = cbormodel.plain_loads(man_b)
    for k, x in manifest.items():
        if k in (15, 16, 17, 18, 20, 23) and isinstance(x, (list, tuple)):
            present = None
            for kk, xx in members:
                if kk == k:
                    present = xx
            if present is not None:
                ok = ok and _digest_ok(x, cbormodel.plain_dumps(present), hashlog, inv, R, supplied)
    # nested envelopes
    for k, x in members:
        if isinstance(k, str) and isinstance(x, bytes) and len(x) > 3 and x[0] == 0xD8 and x[1] == 0x6B:
            ok = ok and check_envelope(x, cbormodel, hashlog, R, supplied)
    return ok


def _digest_ok(dg, wrapped_bytes, hashlog, inv, R, supplied):
    alg_name = None
    for c, n in inv.items():
        if dg[0] == c:
            alg_name = n
    if alg_name is None:
        return False
    lib_name = R.HASHLIB_NAMES[alg_name].replace("_", "")
    for name, size, data, tok in hashlog:
        if name == lib_name and size == R.HASH_SIZES[alg_name] and len(data) == len(wrapped_bytes) and data == wrapped_bytes:
            return dg[1] == tok
    return False


def _seq(L, name):
    return [{"suit-directive-set-component-index": L.uint(name + "_idx", 2**32 - 1)}, {"suit-condition-image-match": []}]


def build_member(L, member, state):
    man = {"suit-manifest-version": 1, "suit-manifest-sequence-number": L.uint("seq")}
    env = {"suit-authentication-wrapper": {"SuitDigest": {"suit-digest-algorithm-id": L.sel("walg", HASHES), "suit-digest-bytes": L.hex("supplied_w", 4)}}}
    if state == "inline":
        man[member] = _seq(L, "inl")
    else:
        man[member] = {"suit-digest-algorithm-id": L.sel("salg", HASHES), "suit-digest-bytes": L.hex("supplied_m", 4)}
    env["suit-manifest"] = man
    if state == "present":
        env[member] = {"en": {"suit-text-manifest-description": L.sel("txt", ["", "desc"])}} if member == "suit-text" else _seq(L, "sev")
    return {"SUIT_Envelope_Tagged": env}


def build_all(L):
    man = {"suit-manifest-version": 1, "suit-manifest-sequence-number": L.uint("seq", 2**32 - 1)}
    env = {"suit-authentication-wrapper": {"SuitDigest": {"suit-digest-algorithm-id": L.sel("walg", HASHES), "suit-digest-bytes": "00"}}}
    algs = ["cose-alg-sha-256", "cose-alg-shake128", "cose-alg-sha-384", "cose-alg-sha-512", "cose-alg-shake256", "cose-alg-shake128"]
    for m, a in zip(MEMBERS, algs):
        man[m] = {"suit-digest-algorithm-id": a, "suit-digest-bytes": "aabb"}
    env["suit-manifest"] = man
    for i, m in enumerate(MEMBERS):
        env[m] = {"en": {"suit-text-manifest-description": "d"}} if m == "suit-text" else [{"suit-directive-set-component-index": i}]
    return {"SUIT_Envelope_Tagged": env}


def _member_value(m, i):
    return {"en": {"suit-text-manifest-description": "d"}} if m == "suit-text" else [{"suit-directive-set-component-index": i}]


def build_pair(L):
    i1 = L.sel("absent_member", list(range(len(MEMBERS))))
    i2 = L.sel("present_member", list(range(len(MEMBERS))))
    if i1 == i2:
        i2 = (i1 + 1) % len(MEMBERS)
    m1, m2 = MEMBERS[i1], MEMBERS[i2]
    man = {"suit-manifest-version": 1, "suit-manifest-sequence-number": L.uint("seq", 2**32 - 1)}
    env = {"suit-authentication-wrapper": {"SuitDigest": {"suit-digest-algorithm-id": L.sel("walg", ["cose-alg-sha-256", "cose-alg-shake128"]), "suit-digest-bytes": L.hex("supplied_w", 2)}}}
    # description order of the two manifest entries is the solver's choice as well
    first = L.bool("absent_listed_first")
    for m in (m1, m2) if first else (m2, m1):
        man[m] = {"suit-digest-algorithm-id": "cose-alg-sha-384" if m == m1 else "cose-alg-shake256", "suit-digest-bytes": L.hex("supplied_" + ("a" if m == m1 else "p"), 2)}
    env["suit-manifest"] = man
    env[m2] = _member_value(m2, 7)
    return {"SUIT_Envelope_Tagged": env}


def build_subsets(L, deep=False):
    members = MEMBERS if deep else [MEMBERS[0], MEMBERS[1], MEMBERS[4], MEMBERS[5]]
    man = {"suit-manifest-version": 1, "suit-manifest-sequence-number": L.uint("seq", 23)}
    env = {"suit-authentication-wrapper": {"SuitDigest": {"suit-digest-algorithm-id": "cose-alg-sha-256", "suit-digest-bytes": "00"}}}
    algs = ["cose-alg-sha-256", "cose-alg-shake128", "cose-alg-sha-384", "cose-alg-sha-512", "cose-alg-shake256", "cose-alg-shake128"]
    present = []
    for i, m in enumerate(members):
        man[m] = {"suit-digest-algorithm-id": algs[i], "suit-digest-bytes": "aabb"}
        if L.bool(f"present_{i}"):
            present.append((i, m))
    env["suit-manifest"] = man
    for i, m in present:
        env[m] = _member_value(m, i)
    return {"SUIT_Envelope_Tagged": env}


def build_signed(L):
    man = {"suit-manifest-version": 1, "suit-manifest-sequence-number": L.uint("seq")}
    wrapper = {"SuitDigest": {"suit-digest-algorithm-id": L.sel("walg", HASHES), "suit-digest-bytes": L.hex("supplied_w", 4)}}
    n = L.sel("blocks", [0, 1, 2])
    for i in range(n):
        sig = L.hex(f"sig{i}", 3) if L.bool(f"sig{i}_nonempty") else ""
        wrapper[f"SuitAuthentication{i + 1}"] = {"CoseSign1Tagged": {"protected": {"suit-cose-algorithm-id": "cose-alg-es-256", "suit-cose-key-id": L.uint(f"kid{i}", 23)}, "unprotected": {}, "payload": None, "signature": sig}}
    env = {"suit-authentication-wrapper": wrapper, "suit-manifest": man}
    return {"SUIT_Envelope_Tagged": env}


def build_boundary(L, sizes):
    # wrapped manifest = map{1:1, 2:seq, 4:uri}; the uri length is chosen so that, for the smallest sequence-number encoding, the
    # manifest content is exactly `size` bytes; wider sequence numbers then cross the boundary from below
    size = L.sel("size", sizes)
    seq = L.uint("seq")
    base = 1 + 2 + 2 + 1  # map head, {1:1}, {2:seq<24}, key 4
    n = size - base
    urilen = n - (1 if n - 1 < 24 else (2 if n - 2 < 256 else 3))
    man = {"suit-manifest-version": 1, "suit-manifest-sequence-number": seq, "suit-reference-uri": "u" * max(urilen, 0)}
    env = {"suit-authentication-wrapper": {"SuitDigest": {"suit-digest-algorithm-id": L.sel("walg", ["cose-alg-sha-256", "cose-alg-shake128"]), "suit-digest-bytes": "00"}}, "suit-manifest": man}
    return {"SUIT_Envelope_Tagged": env}


def build_nested(L):
    def child(depth):
        salg = L.sel(f"salg{depth}", ["cose-alg-sha-384", "cose-alg-shake256"]) if depth != 1 else "cose-alg-sha-512"
        walg = L.sel(f"walg{depth}", ["cose-alg-sha-256", "cose-alg-shake128"]) if depth != 0 else "cose-alg-sha-256"
        man = {"suit-manifest-version": 1, "suit-manifest-sequence-number": L.uint(f"seq{depth}", 2**32 - 1 if depth == 2 else 23), "suit-install": {"suit-digest-algorithm-id": salg, "suit-digest-bytes": "0102"}}
        env = {"suit-authentication-wrapper": {"SuitDigest": {"suit-digest-algorithm-id": walg, "suit-digest-bytes": L.hex(f"sup{depth}", 2)}}, "suit-manifest": man, "suit-install": [{"suit-directive-set-component-index": depth}]}
        if depth < 2:
            env["suit-integrated-dependencies"] = {f"dep{depth}.suit": child(depth + 1)}
        return {"SUIT_Envelope_Tagged": env}

    return child(0)


def _harness(build):
    from vlib import suitenv

    e = suitenv.setup()
    from props.c02 import SymLeaves
    from suit_generator.input_output import InputOutputMixin

    from vlib import cbormodel, chx
    from vlib import registry as R

    def harness():
        suitenv.reset(e)
        L = SymLeaves(chx)
        d = build(L)
        out = InputOutputMixin.prepare_suit_data(d)
        ok = check_envelope(out, cbormodel, e.stubs.HashLog.ENTRIES, R)
        return chx.conclude(ok)

    return harness


def h_member(member, state, fix=None, exclude=()):
    from vlib import chx

    chx.FIXED.clear()
    chx.FIXED.update(fix or {})
    return _harness(lambda L: build_member(L, member, state))


def h_pair(fix=None, exclude=()):
    from vlib import chx

    chx.FIXED.clear()
    chx.FIXED.update(fix or {})
    return _harness(build_pair)


def h_subsets(deep=False, exclude=()):
    return _harness(lambda L: build_subsets(L, deep))


def h_signed(exclude=()):
    return _harness(build_signed)


def h_all(exclude=()):
    return _harness(build_all)


def h_boundary(sizes, exclude=()):
    return _harness(lambda L: build_boundary(L, sizes))


def h_nested(exclude=()):
    return _harness(build_nested)


# ------------------------------------------------------------------------------------------------ concrete oracle / replay


def concrete_check(out_bytes):
    """Real cbor2 + hashlib.  None if every digest is right, else text."""
    import hashlib

    import cbor2

    from vlib import registry as R

    inv = {c: n for n, c in R.HASH_ALGS.items()}

    def h(alg_code, data):
        n = inv.get(alg_code)
        if n is None:
            return None
        hh = hashlib.new(R.HASHLIB_NAMES[n])
        hh.update(data)
        return hh.digest(R.HASH_SIZES[n]) if "shake" in n else hh.digest()

    v = cbor2.loads(out_bytes)
    if v.tag != 107 or 2 not in v.value or 3 not in v.value:
        return "not an envelope with wrapper and manifest"
    dg = cbor2.loads(cbor2.loads(v.value[2])[0])
    if h(dg[0], cbor2.dumps(v.value[3])) != dg[1]:
        return f"authentication wrapper digest (alg {dg[0]}) is not the hash of the wrapped manifest"
    man = cbor2.loads(v.value[3])
    for k, x in man.items():
        if k in (15, 16, 17, 18, 20, 23) and isinstance(x, (list, tuple)) and k in v.value:
            if h(x[0], cbor2.dumps(v.value[k])) != x[1]:
                return f"digest of severed member {k} (alg {x[0]}) is not the hash of its wrapped bytes"
    for k, x in v.value.items():
        if isinstance(k, str) and isinstance(x, bytes) and x[:2] == b"\xd8\x6b":
            r = concrete_check(x)
            if r:
                return f"dependency {k!r}: {r}"
    return None


def replay(obligation, params, cex):
    from props.c02 import CexLeaves
    from suit_generator.input_output import InputOutputMixin

    L = CexLeaves(cex)
    if "member" in params:
        d = build_member(L, params["member"], params["state"])
    elif obligation == "all_severed":
        d = build_all(L)
    elif obligation.startswith("pair_missing_present"):
        d = build_pair(L)
    elif obligation == "member_state_subsets":
        d = build_subsets(L, params.get("deep", False))
    elif obligation == "wrapper_with_signature_blocks":
        d = build_signed(L)
    elif "sizes" in params:
        d = build_boundary(L, params["sizes"])
    elif obligation == "nested_dependencies":
        d = build_nested(L)
    else:
        return dict(reproduced=None, detail="no replay for " + obligation)
    try:
        out = InputOutputMixin.prepare_suit_data(d)
    except Exception as e:  # noqa
        return dict(reproduced=True, detail=f"create raises {type(e).__name__}: {e}")
    r = concrete_check(out)
    return dict(reproduced=r is not None, detail=r or "all digests correct")
