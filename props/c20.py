"""C20 - version strings and default sequence numbers preserve release ordering.

E2 (kernsym, token strings) on SuitComponentVersion.from_obj/_convert_version_part and ncs/build.py
append_default_version_values; E1 for the list contract the E2 obligation composes with.
"""
from __future__ import annotations

import itertools

from vlib.ob import Ob

PROPERTY = "C20"

META = {
    "files": ["suit_generator/suit/manifest.py", "ncs/build.py", "suit_generator/suit/types/common.py"],
    "engine": "E2 kernsym (token strings, z3 LIA) + E1 CrossHair for the integer-list contract",
    "functions": [
        "suit_generator.suit.manifest.SuitComponentVersion.from_obj",
        "suit_generator.suit.manifest.SuitComponentVersion._convert_version_part",
        "suit_generator.suit.types.common.SuitList.from_obj / to_obj / to_cbor (E1, integer lists)",
        "ncs.build.append_default_version_values",
    ],
    "bounds": "version strings N(.N){0,3}[-L[.N]] with every numeric field any integer >= 0 (digit token, symbolic value), "
    "L in {alpha, beta, rc} or an unsupported label (gamma, RC, empty); all ordered pairs of shapes; VERSION tuples: major >= 0, "
    "minor/patch/tweak any ints >= 0 (premise < 256 for monotonicity), EXTRAVERSION in {absent, '', alpha, beta.N, rcN, rc.N, unsupported}; "
    "integer lists: length 0..2 with every element in (-2^64, 2^64); length 3..5 with two symbolic elements at solver-chosen positions",
    "stubs": [
        "digit token: a non-empty decimal digit string abstracted to its integer value (leading zeros abstracted away)",
        "re.match on token strings: the real `re` is run on four instantiations (values 7, 42, 90817, 0) and must give the same token-level group structure",
        "super().from_obj(list) inside SuitComponentVersion.from_obj is a contract boundary: the integer-list behaviour of SuitList.from_obj is decided separately by E1 (obligation list_contract)",
        "configparser section replaced by a plain dict of strings (the function only uses `in`, [] and []=)",
    ],
    "outside": [
        "non-decimal Unicode numerics (isnumeric() true, int() raises ValueError: still a rejection)",
        "orderings the statement does not fix: different field counts combined with a label, and '-rc' vs '-rc.0' (observations in evidence, not asserted)",
    ],
    "assumptions": [],
    "level_text": "Symbolic interpretation of the real conversion code on token strings: for every ordered pair of version-string shapes a z3 query "
    "shows precedence <=> padded list order for all field values; sequence-number monotonicity is an LIA query over the term the real code builds.",
    "technique": "symbolic execution of the real function AST into SMT (z3 linear integer arithmetic) per string shape; pairwise relational VCs",
}

LABELS_OK = ["alpha", "beta", "rc"]
LABELS_BAD = ["gamma", "RC", "", "rc1x"]


def obligations(tier):
    nf = 3 if tier == "quick" else 4
    obs = [
        Ob("translator_validation", "V", "v_translator", {}, 120, "kernsym concrete mode vs real code on concrete version strings / VERSION files", twin=False, weight=3),
        Ob("precedence_pairs", "E2", "k_pairs", {"max_fields": nf}, 600, f"all ordered pairs of shapes, <= {nf} numeric fields, every field value >= 0", weight=20),
        Ob("unsupported_labels", "E2", "k_bad_labels", {"max_fields": nf}, 300, "unsupported pre-release labels are rejected with ValueError", weight=3),
        Ob("seq_monotone", "E2", "k_seq", {}, 300, "default sequence number strictly increasing under minor/patch/tweak < 256; premise necessary", weight=5),
        Ob("default_version_accepted", "E2", "k_default_version", {}, 300, "derived default version string is accepted by the encoder for every EXTRAVERSION class", weight=5),
        Ob("list_contract_short", "E1", "h_list", {"mode": "short"}, 300, "lists of length 0..2, every element any int in (-2^64, 2^64): round trip and CBOR array", weight=30),
        Ob("list_contract_n3", "E1", "h_list", {"mode": "long", "n": 3}, 400, "lists of length 3, two symbolic elements at solver-chosen positions, the rest representatives", weight=60),
        Ob("list_contract_n5_one", "E1", "h_list", {"mode": "one", "n": 5}, 300, "lists of length 5, one symbolic element at a solver-chosen position", weight=20),
    ]
    if tier == "thorough":
        obs.append(Ob("list_contract_n4", "E1", "h_list", {"mode": "long", "n": 4}, 900, "length 4, two symbolic elements at solver-chosen positions", weight=200))
        obs.append(Ob("list_contract_n5", "E1", "h_list", {"mode": "long", "n": 5}, 1500, "length 5, two symbolic elements at solver-chosen positions", weight=300))
    return obs


def _mods():
    from vlib import repoenv

    repoenv.add_repo_to_path()
    import suit_generator.suit.manifest as MF
    import suit_generator.suit.types.common as CM

    return MF, CM


def _build_mod():
    from vlib import repoenv

    repoenv.add_repo_to_path()
    import ncs.build as B

    return B


def shapes(max_fields, labels):
    out = []
    for nf in range(1, max_fields + 1):
        out.append((nf, None, False))
        for lab in labels:
            out.append((nf, lab, False))
            out.append((nf, lab, True))
    return out


def make_tokstr(shape, prefix):
    import z3

    from vlib.ksvalues import Tok, TokStr

    nf, lab, pre = shape
    vs = [z3.Int(f"{prefix}f{i}") for i in range(nf)]
    toks = []
    for i, v in enumerate(vs):
        if i:
            toks.append(Tok("lit", "."))
        toks.append(Tok("digits", v))
    pn = None
    if lab is not None:
        toks.append(Tok("lit", "-" + lab))
        if pre:
            pn = z3.Int(f"{prefix}pre")
            toks.append(Tok("lit", "."))
            toks.append(Tok("digits", pn))
    assume = [v >= 0 for v in vs] + ([pn >= 0] if pn is not None else [])
    return TokStr(toks), vs, pn, assume


def convert(shape, prefix):
    """Run the real from_obj on the token string of `shape`; returns (paths, vars, prenum var, assumptions)."""
    from vlib import kernsym as K
    from vlib.repoenv import REPO

    MF, CM = _mods()
    ts, vs, pn, assume = make_tokstr(shape, prefix)
    enc = set()

    def list_from_obj(it, args, kwargs):
        # contract boundary (see META.stubs): SuitList.from_obj on a list of ints - decided by E1 list_contract
        it.ctx.log.append(("list_from_obj", args[-1]))
        return ("SuitList.from_obj", args[-1])

    def run(ctx):
        models = dict(K.BASE_MODELS)
        models[K.unwrap(CM.SuitList.__dict__["from_obj"])] = list_from_obj
        it = K.Interp(ctx, [REPO], models=models)
        r = it.call_function(K.unwrap(MF.SuitComponentVersion.__dict__["from_obj"]), [MF.SuitComponentVersion, ts], {}, MF.SuitComponentVersion)
        enc.update(it.encoded)
        return r

    paths = K.explore(run, assume)
    return paths, vs, pn, assume, sorted(enc)


RANK = {"alpha": -3, "beta": -2, "rc": -1, None: 0}


def ref_less(sa, va, pa, sb, vb, pb):
    """Semantic-version precedence a < b as the statement defines it (numeric per field with zero padding; alpha <
    beta < rc < release; then the pre-release number, a missing one ranking below any number >= 1)."""
    import z3

    n = max(sa[0], sb[0])
    A = list(va) + [z3.IntVal(0)] * (n - len(va))
    B = list(vb) + [z3.IntVal(0)] * (n - len(vb))
    A.append(z3.IntVal(RANK[sa[1]]))
    B.append(z3.IntVal(RANK[sb[1]]))
    A.append(pa if pa is not None else z3.IntVal(0))
    B.append(pb if pb is not None else z3.IntVal(0))
    return lex_less(A, B), z3.And(*[x == y for x, y in zip(A, B)])


def lex_less(A, B):
    import z3

    alts = []
    for i in range(len(A)):
        alts.append(z3.And(*([A[j] == B[j] for j in range(i)] + [A[i] < B[i]])))
    return z3.Or(*alts) if alts else z3.BoolVal(False)


def padded(la, lb):
    import z3

    from vlib.ksvalues import term

    n = max(len(la), len(lb))
    A = [term(x) for x in la] + [z3.IntVal(0)] * (n - len(la))
    B = [term(x) for x in lb] + [z3.IntVal(0)] * (n - len(lb))
    return A, B


def asserted(sa, sb):
    """Pairs whose order the statement fixes (DESIGN.md C20)."""
    if sa[0] == sb[0]:
        return True
    return sa[1] is None and sb[1] is None


def k_pairs(max_fields=3, exclude=()):
    import time

    import z3

    from vlib import kernsym as K

    t0 = time.time()
    shp = shapes(max_fields, LABELS_OK)
    conv = {}
    funcs = []
    for s in shp:
        for side in "AB":
            paths, vs, pn, assume, enc = convert(s, side)
            funcs = enc or funcs
            conv[(s, side)] = (paths, vs, pn, assume)
    nq = 0
    samples = []
    observations = {"mixed_field_count_with_label_disagreements": 0, "rc_vs_rc0_equal_lists": 0}
    bad = None
    for sa, sb in itertools.product(shp, shp):
        pas, va, pna, asa = conv[(sa, "A")]
        pbs, vb, pnb, asb = conv[(sb, "B")]
        for pa, pb in itertools.product(pas, pbs):
            pc = list(pa.pc) + list(pb.pc)
            if pa.outcome != "ret" or pb.outcome != "ret":
                sat, model = K.satisfiable(pc)
                nq += 1
                if sat:
                    bad = (sa, sb, "supported version string rejected", model)
                    break
                continue
            la, lb = pa.value[1], pb.value[1]
            A, B = padded(la, lb)
            code_less = lex_less(A, B)
            code_eq = z3.And(*[x == y for x, y in zip(A, B)])
            r_less, r_eq = ref_less(sa, va, pna, sb, vb, pnb)
            extra = []
            # '-L' vs '-L.0' is not fixed by the statement: require n >= 1 when exactly one side has a number
            if sa[1] is not None and sb[1] is not None and sa[2] != sb[2]:
                extra.append((pna if pna is not None else pnb) >= 1)
            if asserted(sa, sb):
                for name, vc in (("precedence <=> padded list order", r_less == code_less), ("equality <=> equal padded lists", r_eq == code_eq)):
                    ok, model = K.prove(pc + extra, vc, name)
                    nq += 1
                    if not ok:
                        m2 = K.small_model(pc + extra, vc, list(va) + list(vb))
                        bad = (sa, sb, name, m2 or model)
                        break
                if bad:
                    break
                if len(samples) < 6:
                    samples.append(f"{sa} vs {sb}: {[str(z3.simplify(x)) for x in A]} / {[str(z3.simplify(x)) for x in B]}")
            else:
                sat, _ = K.satisfiable(pc, [r_less != code_less])
                nq += 1
                if sat:
                    observations["mixed_field_count_with_label_disagreements"] += 1
            if sa[1] is not None and sa[1] == sb[1] and sa[0] == sb[0] and sa[2] != sb[2]:
                sat, _ = K.satisfiable(pc, [code_eq, (pna if pna is not None else pnb) == 0] + [x == y for x, y in zip(va, vb)])
                nq += 1
                if sat:
                    observations["rc_vs_rc0_equal_lists"] += 1
        if bad:
            break
    res = dict(paths=len(conv), reached=len(shp) ** 2, queries=K.STATS.queries, solver_s=round(K.STATS.solver_s, 3), seconds=round(time.time() - t0, 3), samples=samples, observations=observations, functions=funcs)
    if bad:
        sa, sb, name, model = bad
        _, va, pna, _ = conv[(sa, "A")]
        _, vb, pnb, _ = conv[(sb, "B")]

        def inst(s, vs, pn):
            vals = [model.eval(v, model_completion=True).as_long() for v in vs] if model is not None else [1] * len(vs)
            txt = ".".join(str(v) for v in vals)
            if s[1] is not None:
                txt += "-" + s[1]
                if s[2]:
                    txt += "." + str(model.eval(pn, model_completion=True).as_long() if model is not None else 1)
            return txt

        res.update(verdict="VIOLATED", message=f"{name}: shapes {sa} / {sb}", cex={"a": inst(sa, va, pna), "b": inst(sb, vb, pnb), "vc": name})
    else:
        res["verdict"] = "CONFIRMED"
    return res


def k_bad_labels(max_fields=3, exclude=()):
    import time

    from vlib import kernsym as K

    t0 = time.time()
    n = 0
    bad = None
    for s in shapes(max_fields, LABELS_BAD):
        if s[1] is None:
            continue
        paths, vs, pn, assume, enc = convert(s, "A")
        n += len(paths)
        for p in paths:
            if p.outcome != "raise" or not isinstance(p.value, ValueError):
                bad = s
        if bad:
            break
    res = dict(paths=n, reached=n, queries=K.STATS.queries, solver_s=round(K.STATS.solver_s, 3), seconds=round(time.time() - t0, 3), samples=[f"labels {LABELS_BAD} x fields 1..{max_fields} x with/without number -> ValueError"])
    if bad:
        txt = ".".join(["1"] * bad[0]) + "-" + bad[1] + (".2" if bad[2] else "")
        res.update(verdict="VIOLATED", message=f"unsupported label accepted: {bad}", cex={"a": txt, "vc": "unsupported label rejected"})
    else:
        res["verdict"] = "CONFIRMED" if n else "VACUOUS"
    return res


EXTRA_CLASSES = ["<absent>", "", "alpha", "beta", "rc", "beta.N", "rcN", "rc.N", "alphaN", "gamma", "rc-1", "1"]


def _version_cfg(prefix, extra, with_tweak=True):
    import z3

    from vlib.ksvalues import Tok, TokStr

    M, m, p, t, n = [z3.Int(prefix + x) for x in ("major", "minor", "patch", "tweak", "extranum")]
    ver = {"VERSION_MAJOR": TokStr.digits(M), "VERSION_MINOR": TokStr.digits(m), "PATCHLEVEL": TokStr.digits(p)}
    if with_tweak:
        ver["VERSION_TWEAK"] = TokStr.digits(t)
    if extra != "<absent>":
        if "N" in extra:
            i = extra.index("N")
            ver["EXTRAVERSION"] = TokStr([Tok("lit", extra[:i]), Tok("digits", n), Tok("lit", extra[i + 1 :])])
        else:
            ver["EXTRAVERSION"] = extra
    return {"VERSION": ver}, (M, m, p, t, n), [M >= 0, m >= 0, p >= 0, t >= 0, n >= 0]


def _run_defaults(cfg, assume):
    from vlib import kernsym as K
    from vlib.repoenv import REPO

    B = _build_mod()
    enc = set()

    def run(ctx):
        it = K.Interp(ctx, [REPO], models=dict(K.BASE_MODELS))
        it.call_function(B.append_default_version_values, [cfg], {}, None)
        enc.update(it.encoded)
        return dict(cfg["VERSION"])

    return K.explore(run, assume), sorted(enc)


def k_seq(exclude=()):
    import time

    import z3

    from vlib import kernsym as K
    from vlib.ksvalues import TokStr

    t0 = time.time()
    out = {}
    for side in "AB":
        for tw in (True, False):
            cfg, vs, assume = _version_cfg(side, "<absent>", tw)
            paths, enc = _run_defaults(cfg, assume)
            out[(side, tw)] = (paths, vs, assume)
    bad = None
    nq = 0
    samples = []
    for twa in (True, False):
        for twb in (True, False):
            pa, va, asa = out[("A", twa)]
            pb, vb, asb = out[("B", twb)]
            if len(pa) != 1 or len(pb) != 1 or pa[0].outcome != "ret" or pb[0].outcome != "ret":
                bad = ("default computation does not return on a single path", None, twa, twb)
                break
            sa, sb = pa[0].value.get("DEFAULT_SEQ_NUM"), pb[0].value.get("DEFAULT_SEQ_NUM")
            if not (isinstance(sa, TokStr) and len(sa.toks) == 1 and sa.toks[0].kind == "digits" and isinstance(sb, TokStr) and len(sb.toks) == 1):
                bad = ("DEFAULT_SEQ_NUM is not the decimal rendering of one integer", None, twa, twb)
                break
            ta, tb = sa.toks[0].v, sb.toks[0].v
            A = [va[0], va[1], va[2], va[3] if twa else z3.IntVal(0)]
            Bv = [vb[0], vb[1], vb[2], vb[3] if twb else z3.IntVal(0)]
            prem = [x < 256 for x in A[1:] + Bv[1:]]
            pc = list(pa[0].pc) + list(pb[0].pc)
            ok, model = K.prove(pc + prem, z3.Implies(lex_less(A, Bv), ta < tb), "lex order => sequence order")
            nq += 1
            if not ok:
                bad = ("sequence number not strictly increasing", model, twa, twb)
                break
            ok2, model2 = K.prove(pc + prem, z3.Implies(z3.And(*[x == y for x, y in zip(A, Bv)]), ta == tb), "equal versions => equal sequence numbers")
            nq += 1
            if not ok2:
                bad = ("equal versions give different sequence numbers", model2, twa, twb)
                break
            # the premise is necessary (documented): without it a counterexample exists
            sat, _ = K.satisfiable(pc, [lex_less(A, Bv), z3.Not(ta < tb)])
            nq += 1
            if not sat:
                samples.append("note: monotone even without the <256 premise")
            samples.append(f"tweakA={twa} tweakB={twb}: seqA={z3.simplify(ta)}")
        if bad:
            break
    res = dict(paths=4, reached=4, queries=K.STATS.queries, solver_s=round(K.STATS.solver_s, 3), seconds=round(time.time() - t0, 3), samples=samples[:6], functions=enc)
    if bad:
        what, model, twa, twb = bad
        _, va, _ = out[("A", twa)]
        _, vb, _ = out[("B", twb)]
        g = lambda v: model.eval(v, model_completion=True).as_long() if model is not None else 1  # noqa
        res.update(verdict="VIOLATED", message=what, cex={"A": [g(x) for x in va[:4]], "B": [g(x) for x in vb[:4]], "tweakA": twa, "tweakB": twb, "vc": what})
    else:
        res["verdict"] = "CONFIRMED"
    return res


def k_default_version(exclude=()):
    import time

    from vlib import kernsym as K
    from vlib.ksvalues import TokStr
    from vlib.repoenv import REPO

    MF, CM = _mods()
    t0 = time.time()
    bad = None
    n = 0
    samples = []
    enc_all = set()
    for extra in EXTRA_CLASSES:
        for tw in (True, False):
            cfg, vs, assume = _version_cfg("A", extra, tw)
            paths, enc = _run_defaults(cfg, assume)
            enc_all.update(enc)
            for p in paths:
                n += 1
                if p.outcome != "ret":
                    bad = (extra, tw, f"append_default_version_values raises {type(p.value).__name__}")
                    break
                dv = p.value.get("DEFAULT_VERSION")
                if dv is None:
                    bad = (extra, tw, "no DEFAULT_VERSION derived")
                    break
                ts = TokStr.of(dv)

                def list_from_obj(it, args, kwargs):
                    return ("SuitList.from_obj", args[-1])

                def run(ctx):
                    models = dict(K.BASE_MODELS)
                    models[K.unwrap(CM.SuitList.__dict__["from_obj"])] = list_from_obj
                    it = K.Interp(ctx, [REPO], models=models)
                    r = it.call_function(K.unwrap(MF.SuitComponentVersion.__dict__["from_obj"]), [MF.SuitComponentVersion, ts], {}, MF.SuitComponentVersion)
                    enc_all.update(it.encoded)
                    return r

                sub = K.explore(run, list(p.pc))
                for q in sub:
                    n += 1
                    if q.outcome != "ret":
                        bad = (extra, tw, f"derived version string {ts!r} rejected with {type(q.value).__name__}")
                if bad:
                    break
                samples.append(f"EXTRAVERSION={extra!r}: {ts!r}")
            if bad:
                break
        if bad:
            break
    res = dict(paths=n, reached=n, queries=K.STATS.queries, solver_s=round(K.STATS.solver_s, 3), seconds=round(time.time() - t0, 3), samples=samples[:8], functions=sorted(enc_all))
    if bad:
        res.update(verdict="VIOLATED", message=bad[2], cex={"extra": bad[0], "tweak": bad[1], "vc": bad[2]})
    else:
        res["verdict"] = "CONFIRMED" if n else "VACUOUS"
    return res


# ------------------------------------------------------------------------------------------------ E1: list contract


def h_list(mode="short", n=3, exclude=()):
    from vlib import repoenv

    repoenv.prepare_symbolic()
    import suit_generator.suit.manifest as MF

    from vlib import cbormodel, chx

    LO, HI = -(2**64) + 1, 2**64 - 1

    def harness():
        cbormodel.reset()
        if mode == "short":
            ln = chx.sym_int("n", 0, 2)
            xs = []
            for i in range(2):
                if i < ln:
                    xs.append(chx.sym_int(f"x{i}", LO, HI))
        else:
            i1 = chx.sym_int("i1", 0, n - 1)
            i2 = chx.sym_int("i2", 0, n - 1) if mode == "long" else n
            if mode == "long":
                chx.assume(i1 < i2)
            reps = [0, -3, 300, 70000, -1]
            a, b = chx.sym_int("a", LO, HI), chx.sym_int("b", LO, HI)
            xs = []
            for i in range(5):
                if i < n:
                    xs.append(a if i == i1 else (b if i == i2 else reps[i]))
        o = MF.SuitComponentVersion.from_obj(list(xs))
        back = o.to_obj()
        enc = o.to_cbor()
        exp = cbormodel.plain_dumps(list(xs))
        ok = back == xs and enc == exp
        return chx.conclude(ok, xs=xs)

    return harness


# ------------------------------------------------------------------------------------------------ validation / replay


def py_ref_key(s):
    """Concrete reference ordering key per the statement (same field count or no label is the caller's business)."""
    main, _, pre = s.partition("-")
    nums = [int(x) for x in main.split(".")]
    if not pre:
        return nums, 0, 0
    lab, _, n = pre.partition(".")
    return nums, RANK[lab], int(n) if n else 0


def v_translator():
    from vlib import kernsym as K
    from vlib.ksvalues import TokStr
    from vlib.repoenv import REPO

    MF, CM = _mods()
    B = _build_mod()
    n = 0
    bad = []
    strs = ["1", "0", "1.2", "1.2.3", "1.2.3.4", "10.0.255", "1.0-rc", "1.0-rc.1", "2.5.1-alpha", "2.5.1-beta.12", "1-rc.0", "1.0-gamma", "1.0-", "a.b", "1..2", "1.0-rc1", "007.01"]
    for s in strs:
        try:
            real, rex = MF.SuitComponentVersion.from_obj(s).to_obj(), None
        except Exception as e:  # noqa
            real, rex = None, type(e).__name__

        def list_from_obj(it, args, kwargs):
            return ("SuitList.from_obj", args[-1])

        def run(ctx):
            models = dict(K.BASE_MODELS)
            models[K.unwrap(CM.SuitList.__dict__["from_obj"])] = list_from_obj
            it = K.Interp(ctx, [REPO], models=models, force_interpret=True)
            return it.call_function(K.unwrap(MF.SuitComponentVersion.__dict__["from_obj"]), [MF.SuitComponentVersion, s], {}, MF.SuitComponentVersion)

        ps = K.explore(run)
        n += 1
        p = ps[0]
        if len(ps) != 1:
            bad.append(("paths", s))
        elif p.outcome == "raise":
            if rex != type(p.value).__name__:
                bad.append(("exc", s, rex, type(p.value).__name__))
        elif rex is not None or list(p.value[1]) != real:
            bad.append(("value", s, real, p.value))
    import configparser

    for txt in ("VERSION_MAJOR = 1\nVERSION_MINOR = 2\nPATCHLEVEL = 3\nVERSION_TWEAK = 4\nEXTRAVERSION = rc1\n", "VERSION_MAJOR = 0\nVERSION_MINOR = 0\nPATCHLEVEL = 0\nEXTRAVERSION =\n", "VERSION_MAJOR = 3\nVERSION_MINOR = 200\nPATCHLEVEL = 99\nVERSION_TWEAK = 0\nEXTRAVERSION = beta.2\n", "VERSION_MAJOR = 3\nVERSION_MINOR = 1\nPATCHLEVEL = 0\nEXTRAVERSION = dev\n", "APP_ROOT_SEQ_NUM = 7\nAPP_ROOT_VERSION = 1.2.3\n", "FOO = 1\n"):
        cfg = configparser.ConfigParser()
        cfg.optionxform = lambda o: o
        cfg.read_string("[VERSION]\n" + txt)
        B.append_default_version_values(cfg)
        real = dict(cfg.items("VERSION"))
        cfg2 = configparser.ConfigParser()
        cfg2.optionxform = lambda o: o
        cfg2.read_string("[VERSION]\n" + txt)
        plain = {"VERSION": dict(cfg2.items("VERSION"))}

        def run(ctx):
            it = K.Interp(ctx, [REPO], models=dict(K.BASE_MODELS), force_interpret=True)
            it.call_function(B.append_default_version_values, [plain], {}, None)
            return plain["VERSION"]

        ps = K.explore(run)
        n += 1
        if len(ps) != 1 or ps[0].outcome != "ret" or {k: (v.concrete() if isinstance(v, TokStr) else v) for k, v in ps[0].value.items()} != real:
            bad.append(("defaults", txt, real, ps[0].value if ps else None))
    return dict(verdict="CONFIRMED" if not bad else "ERROR", paths=n, validated=n, message=("translator disagreement: " + repr(bad[:3])) if bad else "")


def replay(obligation, params, cex):
    MF, CM = _mods()
    if obligation in ("precedence_pairs", "unsupported_labels"):
        a = cex.get("a")
        b = cex.get("b")
        if obligation == "unsupported_labels":
            try:
                MF.SuitComponentVersion.from_obj(a)
                return dict(reproduced=True, detail=f"{a!r} accepted")
            except ValueError:
                return dict(reproduced=False, detail="rejected")
            except Exception as e:  # noqa
                return dict(reproduced=True, detail=f"raises {type(e).__name__}")
        try:
            la = MF.SuitComponentVersion.from_obj(a).to_obj()
            lb = MF.SuitComponentVersion.from_obj(b).to_obj()
        except Exception as e:  # noqa
            return dict(reproduced=True, detail=f"supported version string rejected: {type(e).__name__}: {e}")
        n = max(len(la), len(lb))
        pa, pb = la + [0] * (n - len(la)), lb + [0] * (n - len(lb))
        ka, kb = py_ref_key(a), py_ref_key(b)
        m = max(len(ka[0]), len(kb[0]))
        ra = (ka[0] + [0] * (m - len(ka[0])), ka[1], ka[2])
        rb = (kb[0] + [0] * (m - len(kb[0])), kb[1], kb[2])
        rep = ((ra < rb) != (pa < pb)) or ((ra == rb) != (pa == pb))
        return dict(reproduced=rep, detail=f"{a} -> {la}, {b} -> {lb}; reference {'<' if ra < rb else '>='} , lists {'<' if pa < pb else '>='}")
    B = _build_mod()
    import configparser

    def run(vals, tweak=True, extra=None):
        txt = f"VERSION_MAJOR = {vals[0]}\nVERSION_MINOR = {vals[1]}\nPATCHLEVEL = {vals[2]}\n"
        if tweak:
            txt += f"VERSION_TWEAK = {vals[3]}\n"
        if extra is not None:
            txt += f"EXTRAVERSION = {extra}\n"
        cfg = configparser.ConfigParser()
        cfg.optionxform = lambda o: o
        cfg.read_string("[VERSION]\n" + txt)
        B.append_default_version_values(cfg)
        return dict(cfg.items("VERSION"))

    if obligation == "seq_monotone":
        A, Bv = cex["A"], cex["B"]
        ra, rb = run(A, cex.get("tweakA", True)), run(Bv, cex.get("tweakB", True))
        a4 = A[:3] + [A[3] if cex.get("tweakA", True) else 0]
        b4 = Bv[:3] + [Bv[3] if cex.get("tweakB", True) else 0]
        sa, sb = int(ra["DEFAULT_SEQ_NUM"]), int(rb["DEFAULT_SEQ_NUM"])
        if all(x < 256 for x in a4[1:] + b4[1:]):
            rep = (a4 < b4 and not sa < sb) or (a4 == b4 and sa != sb)
            return dict(reproduced=rep, detail=f"{a4}->{sa}, {b4}->{sb}")
        return dict(reproduced=False, detail="premise violated by the counterexample")
    if obligation == "default_version_accepted":
        extra = cex.get("extra")
        ex = None if extra == "<absent>" else extra.replace("N", "3")
        try:
            r = run([1, 2, 3, 4], cex.get("tweak", True), ex)
            MF.SuitComponentVersion.from_obj(r["DEFAULT_VERSION"])
            return dict(reproduced=False, detail=f"accepted {r['DEFAULT_VERSION']}")
        except Exception as e:  # noqa
            return dict(reproduced=True, detail=f"{type(e).__name__}: {e}")
    if obligation.startswith("list_contract"):
        xs = cex.get("xs", [])
        import cbor2

        try:
            o = MF.SuitComponentVersion.from_obj(list(xs))
            rep = o.to_obj() != list(xs) or o.to_cbor() != cbor2.dumps(list(xs))
            return dict(reproduced=rep, detail=f"{xs} -> {o.to_obj()} / {o.to_cbor().hex()}")
        except Exception as e:  # noqa
            return dict(reproduced=True, detail=f"{type(e).__name__}: {e}")
    return dict(reproduced=None, detail="unknown obligation")
