"""C07 - boot storage images place each installed envelope intact in its role's slot (cmd_image.py, envelope.py, input_output.py)."""
from __future__ import annotations

import os
import tempfile
import uuid as real_uuid

from vlib.ob import Ob

PROPERTY = "C07"

META = {
    "files": ["suit_generator/cmd_image.py", "suit_generator/envelope.py", "suit_generator/input_output.py", "build_configuration/configuration.py"],
    "functions": [
        "suit_generator.cmd_image.ImageCreator.create_files_for_boot/_create_suit_storage_files_for_boot/_create_single_domain_storage_file_for_boot",
        "suit_generator.cmd_image.EnvelopeStorage.__init__/assign_role/_find_role/_find_slot/add_envelope/as_intelhex + both SoC layouts",
        "suit_generator.envelope.SuitEnvelope.load/sever; InputOutputMixin.from_suit_file/prepare_suit_data",
    ],
    "bounds": "storage base any int 0..2^32-1; class of the manifest solver-chosen among the 8 default classes plus an unknown one; both SoC layouts; sequence number uint32 symbolic; "
    "presence of severed members, integrated payload, extra manifest members before the component id solver-chosen; sets of 1 and 2 envelopes (roles solver-chosen, duplicates "
    "included); envelope size at slot size and slot size + 1 through a concrete-length URI; slot tables: all pairs of entries",
    "stubs": ["intelhex.IntelHex -> recording stub (contract validated in C16/C12); uuid5 -> congruent token stub; hashes -> token stub; cbor2 -> cbormodel; open() -> in-memory files"],
    "outside": ["Intel-HEX text format (library)", "digest/signature bytes are concrete tokens here: bytes.find() on the stored envelope forks at every symbolic byte", "build-configuration role overrides (C13)"],
    "assumptions": [],
}

DEFAULTS = [
    ("nRF54H20_sample_root", "APP_ROOT"), ("nRF54H20_sample_app", "APP_LOCAL_1"), ("nRF54H20_sample_app_recovery", "APP_RECOVERY"), ("nRF54H20_sample_rad", "RAD_LOCAL_1"),
    ("nRF54H20_sample_rad_recovery", "RAD_RECOVERY"), ("nRF54H20_nordic_top", "SEC_TOP"), ("nRF54H20_sec", "SEC_SDFW"), ("nRF54H20_sys", "SEC_SYSCTRL"), ("not_a_known_class", None),
]
DOMAIN_OF = {"APP": "application", "RAD": "radio", "SEC": "secure"}


def class_table(storage_cls):
    """The SoC's default (class name, role) assignments - configuration data read from the live class - plus an unknown class."""
    out = [(en["class_name"], en["role"].name) for en in storage_cls._CLASS_ROLE_ASSIGNMENTS if en["vendor_name"] == "nordicsemi.com"]
    return out + [("not_a_known_class", None)]


SEVERABLE = ["suit-install", "suit-payload-fetch", "suit-dependency-resolution", "suit-candidate-verification", "suit-text"]


def obligations(tier):
    obs = [Ob("slot_tables_disjoint", "L", "l_layout", {}, 60, "both layouts: all pairs of slots are disjoint and each role occurs once (z3 over the live tables)", weight=1)]
    for soc in ("nrf54h20", "nrf9280"):
        # severed: 0 = nothing severed, k = k-th severable member severed and present, plus an integrated payload
        sevs = range(6) if (soc == "nrf54h20" or tier == "thorough") else (0, 4)
        for sev in sevs:
            what = "without severed member / payload" if sev == 0 else f"with {SEVERABLE[sev - 1]} severed + integrated payload"
            obs.append(Ob(f"one_envelope_{soc}_severed{sev}", "E1", "h_boot", {"soc": soc, "n": 1, "severed": sev}, 1200, f"one envelope ({what}): base < 2^32, 9 classes, component-id position, seq uint32", weight=150))
        for part in range(3) if (soc == "nrf54h20" or tier == "thorough") else ():
            obs.append(Ob(f"two_envelopes_{soc}_part{part}", "E1", "h_boot", {"soc": soc, "n": 2, "part": part}, 1800, f"two envelopes, roles solver-chosen incl. duplicates and unknown class (first class in third #{part} of the table)", weight=200))
        for cfg in range(len(CFG_CASES)) if (soc == "nrf54h20" or tier == "thorough") else (0,):
            obs.append(Ob(f"kconfig_roles_{soc}_cfg{cfg}", "E1", "h_boot", {"soc": soc, "n": 1, "severed": 0, "cfg": cfg}, 1200, f"role assignments from a build configuration file ({CFG_CASES[cfg][0]}): the envelope of each configured or default class (solver-chosen) lands in the slot of the role that the configuration, then the defaults, give it", weight=120))
    obs.append(Ob("rejections", "E1", "h_reject", {}, 900, "next to a valid envelope of an earlier-written domain: missing component id / record one byte larger than the slot / absent input file; unknown SoC: error and nothing written; record exactly as large as the slot accepted", weight=100))
    return obs


# build-configuration cases: role key in the file -> (vendor, class); "@ROLE" stands for the default class of that role
CFG_CASES = [
    ("two default classes exchange their roles", {"APP_LOCAL_1": ("nordicsemi.com", "@RAD_LOCAL_1"), "RAD_LOCAL_1": ("nordicsemi.com", "@APP_LOCAL_1")}),
    ("custom vendor/class pairs for ROOT and APP_LOCAL_1", {"ROOT": ("acme.example", "my_root"), "APP_LOCAL_1": ("acme.example", "my_app")}),
    ("a default class moved to another role", {"APP_LOCAL_1": ("nordicsemi.com", "@APP_ROOT")}),
]


def role_table(storage_cls, cfg=None):
    """(vendor, class, role) for every pair an envelope may name: defaults overridden by the configuration (later assignment of the
    same pair wins), plus an unknown class.  Returns (table, config file text or None)."""
    pairs = {}
    for en in storage_cls._CLASS_ROLE_ASSIGNMENTS:
        pairs[(en["vendor_name"], en["class_name"])] = en["role"].name
    text = None
    if cfg is not None:
        default_of = {r: c for (v, c), r in pairs.items() if v == "nordicsemi.com"}
        lines = ["CONFIG_SOMETHING=y"]
        for key, (vendor, cname) in CFG_CASES[cfg][1].items():
            if cname.startswith("@"):
                cname = default_of[cname[1:]]
            lines.append(f'SB_CONFIG_SUIT_MPI_{key}_VENDOR_NAME="{vendor}"')
            lines.append(f'SB_CONFIG_SUIT_MPI_{key}_CLASS_NAME="{cname}"')
            pairs[(vendor, cname)] = "APP_ROOT" if key == "ROOT" else key
        text = "\n".join(lines) + "\n"
    table = [(v, c, r) for (v, c), r in pairs.items() if v in ("nordicsemi.com", "acme.example")]
    return table + [("nordicsemi.com", "not_a_known_class", None)], text


def l_layout():
    import time

    import z3

    from vlib import repoenv

    repoenv.add_repo_to_path()
    import suit_generator.cmd_image as CI

    t0 = time.time()
    q = 0
    bad = []
    for cls in (CI.EnvelopeStorageNrf54h20, CI.EnvelopeStorageNrf9280):
        lay = cls._LAYOUT
        i, j, base = z3.Ints("i j base")
        off = z3.Function("off", z3.IntSort(), z3.IntSort())
        size = z3.Function("size", z3.IntSort(), z3.IntSort())
        s = z3.Solver()
        for k, e in enumerate(lay):
            s.add(off(k) == e["offset"], size(k) == e["size"])
        s.add(i >= 0, i < len(lay), j >= 0, j < len(lay), i != j, base >= 0, base + off(i) < base + off(j) + size(j), base + off(j) < base + off(i) + size(i))
        r = s.check()
        q += 1
        if str(r) != "unsat":
            m = s.model()
            bad.append((cls.__name__, "overlap", m[i].as_long(), m[j].as_long()))
        roles = [e["role"] for e in lay]
        if len(set(roles)) != len(roles) or any(e["size"] <= 0 for e in lay):
            bad.append((cls.__name__, "duplicate role / empty slot"))
    return dict(verdict="CONFIRMED" if not bad else "VIOLATED", paths=q, queries=q, solver_s=round(time.time() - t0, 3), message=str(bad) if bad else "", cex={"layout": bad} if bad else None, samples=["two layouts, all ordered pairs of slots"])


def _env():
    from vlib import suitenv

    e = suitenv.setup()
    import suit_generator.cmd_image as CI
    import suit_generator.input_output as IO

    CI.uuid = e.proxy
    CI.IntelHex = e.stubs.HexRecorder
    IO.open = e.fs.open
    return e, CI, IO


def make_desc(L, name, class_name, with_cid=True, uri_len=None, severed=None, vendor="nordicsemi.com"):
    man = {"suit-manifest-version": 1, "suit-manifest-sequence-number": L.uint(name + "_seq", 2**32 - 1)}
    if L.bool(name + "_common_first"):
        man["suit-common"] = {"suit-components": [["M", 2]]}
    if uri_len is not None:
        man["suit-reference-uri"] = "u" * uri_len
    if with_cid:
        man["suit-manifest-component-id"] = ["INSTLD_MFST", {"RFC4122_UUID": {"namespace": vendor, "name": class_name}}]  # the form the storage format is defined for
    man["suit-validate"] = [{"suit-condition-image-match": []}]
    env = {"suit-authentication-wrapper": {"SuitDigest": {"suit-digest-algorithm-id": "cose-alg-sha-256", "suit-digest-bytes": "00"}}, "suit-manifest": man}
    sev = L.bool(name + "_severed") if severed is None else bool(severed)
    if sev:
        m = SEVERABLE[(severed - 1) % len(SEVERABLE)] if isinstance(severed, int) and not isinstance(severed, bool) and severed > 0 else "suit-install"
        man[m] = {"suit-digest-algorithm-id": "cose-alg-sha-256", "suit-digest-bytes": "00"}
        env[m] = {"en": {"suit-text-manifest-description": "d"}} if m == "suit-text" else [{"suit-directive-set-component-index": 1}]
    if (L.bool(name + "_payload") if severed is None else bool(severed)):
        env["suit-integrated-payloads"] = {"#fw": "c0ffee"}
    return {"SUIT_Envelope_Tagged": env}


def expected_slot(e, cbormodel, in_bytes, base, entry):
    """Reference slot content: cbor{0:1, 1:offset of the class id, 2:stored envelope} padded with FF to the slot size."""
    v = cbormodel.plain_loads(in_bytes)
    wrap = man = None
    keep = []
    for k, x in v.value.items():
        if k == 2 or k == 3:
            keep.append((k, x))
    stored = cbormodel.plain_dumps(cbormodel.CBORTag(107, cbormodel.PairDict(keep)))
    return stored


def h_boot(soc="nrf54h20", n=1, severed=None, part=None, cfg=None, exclude=()):
    e, CI, IO = _env()
    from props.c02 import SymLeaves
    from suit_generator.exceptions import GeneratorError, SUITError
    from suit_generator.input_output import InputOutputMixin

    from vlib import cbormodel, chx, suitenv

    storage_cls = CI.EnvelopeStorageNrf54h20 if soc == "nrf54h20" else CI.EnvelopeStorageNrf9280
    classes, cfg_text = role_table(storage_cls, cfg)

    def harness():
        suitenv.reset(e)
        e.stubs.HexRecorder.LOG = []
        L = SymLeaves(chx)
        base = chx.sym_int("base", 0, 2**32 - 1)
        inputs = []
        for i in range(n):
            table = classes if (part is None or i > 0) else classes[part * 3 : part * 3 + 3]
            vendor, cname, role = chx.pick(f"class{i}", table)
            d = make_desc(L if n == 1 else _Small(chx), f"e{i}", cname, severed=severed, vendor=vendor)
            b = InputOutputMixin.prepare_suit_data(d)
            e.fs.add(f"in{i}.suit", b)
            inputs.append(((vendor, cname), role, b))
        if cfg_text is not None:
            e.fs.add("sb.config", cfg_text)
        raised = None
        try:
            CI.ImageCreator.create_files_for_boot([f"in{i}.suit" for i in range(n)], "outdir", base, "sb.config" if cfg_text is not None else None, soc)
        except GeneratorError:
            raised = "GeneratorError"
        except SUITError:
            raised = "SUITError"
        writes = [w for w in e.stubs.HexRecorder.LOG if w[0] == "write"]
        roles = [r for _, r, _ in inputs]
        layout_roles = [en["role"].name for en in storage_cls._LAYOUT]
        bad_input = any(r is None or r not in layout_roles for r in roles) or len(set(roles)) != len(roles)
        if bad_input:
            ok = raised is not None and len(writes) == 0
        else:
            ok = raised is None
            # per domain exactly the slots of that domain
            doms = sorted(set(DOMAIN_OF[r[:3]] for r in roles))
            ok = ok and len(writes) == len(doms)
            for dom in doms:
                w = [x for x in writes if x[1] == "outdir/suit_installed_envelopes_" + dom + "_merged.hex"]
                ok = ok and len(w) == 1
                if not ok:
                    break
                segs = w[0][2]
                mine = [(c, r, b) for c, r, b in inputs if DOMAIN_OF[r[:3]] == dom]
                ok = ok and len(segs) == len(mine)
                for cname, role, b in mine:
                    entry = [en for en in storage_cls._LAYOUT if en["role"].name == role][0]
                    seg = [sg for sg in segs if sg[0] == base + entry["offset"]]
                    ok = ok and len(seg) == 1
                    if not ok:
                        break
                    data = seg[0][1]
                    ok = ok and len(data) == entry["size"]
                    stored = expected_slot(e, cbormodel, b, base, entry)
                    # slot = map{0:1, 1:off, 2:stored} then FF padding
                    slot_v, used = cbormodel.plain_loads_prefix(data)
                    ok = ok and isinstance(slot_v, dict) and list(slot_v.keys()) == [0, 1, 2] and slot_v[0] == 1 and slot_v[2] == stored
                    if not ok:
                        break
                    off = slot_v[1]
                    vid = e.proxy.uuid5(real_uuid.NAMESPACE_DNS, cname[0])
                    cid = e.proxy.uuid5(vid, cname[1])
                    ok = ok and stored[off : off + 16] == cid.bytes and data[used:] == b"\xff" * (entry["size"] - used)
        return chx.conclude(ok, soc=soc, raised=raised)

    return harness


def h_reject(exclude=()):
    e, CI, IO = _env()
    from props.c02 import SymLeaves
    from suit_generator.exceptions import GeneratorError, SUITError
    from suit_generator.input_output import InputOutputMixin

    from vlib import cbormodel, chx, suitenv

    def harness():
        suitenv.reset(e)
        e.stubs.HexRecorder.LOG = []
        L = SymLeaves(chx)
        base = chx.sym_int("base", 0, 2**32 - 1)
        mode = chx.pick("mode", ["no_cid", "fits_exactly", "one_byte_too_big", "missing_file", "unknown_soc"])
        soc = "nrf54h20"
        files = ["in0.suit"]
        cname = "nRF54H20_sample_app"  # APP_LOCAL_1: 1024-byte slot in the nRF54H20 layout
        if mode in ("fits_exactly", "one_byte_too_big"):
            # size of the slot record for uri length u is affine in u within one head-width class: measure two lengths concretely
            d0 = make_desc(_Fixed(), "e0", cname, uri_len=600)
            b0 = InputOutputMixin.prepare_suit_data(d0)
            rec0 = len(cbormodel.plain_dumps({0: 1, 1: 300, 2: _stored(cbormodel, b0)}))
            slot = [en for en in CI.EnvelopeStorageNrf54h20._LAYOUT if en["role"].name == "APP_LOCAL_1"][0]["size"]
            ulen = 600 + (slot - rec0) + (1 if mode == "one_byte_too_big" else 0)
            d = make_desc(_Fixed(), "e0", cname, uri_len=ulen)
        else:
            d = make_desc(L, "e0", cname, with_cid=(mode != "no_cid"))
        e.fs.add("in0.suit", InputOutputMixin.prepare_suit_data(d))
        # a valid envelope of a domain whose file is written earlier (secure) comes first: whatever is wrong with the other input,
        # this one's file must not be left behind
        e.fs.add("sec.suit", InputOutputMixin.prepare_suit_data(make_desc(_Fixed(), "s", "nRF54H20_nordic_top")))
        files = ["sec.suit", "in0.suit"]
        if mode == "missing_file":
            files = ["sec.suit", "absent.suit"]
        if mode == "unknown_soc":
            soc = "nrf5340"
        raised = None
        try:
            CI.ImageCreator.create_files_for_boot(files, "outdir", base, None, soc)
        except (GeneratorError, SUITError):
            raised = "error"
        writes = [w for w in e.stubs.HexRecorder.LOG if w[0] == "write"]
        if mode == "fits_exactly":
            app = [w for w in writes if "application" in w[1]]
            ok = raised is None and len(writes) == 2 and len(app) == 1 and len(app[0][2][0][1]) == 1024
        else:
            ok = raised is not None and len(writes) == 0
        return chx.conclude(ok, mode=mode)

    return harness


class _Small:
    """Two-envelope sets: sequence numbers in one CBOR width class, flags fixed (the per-envelope variety is the one-envelope obligations')."""

    def __init__(self, chx):
        self.chx = chx

    def uint(self, name, hi=None):
        return self.chx.sym_int(name, 0, 23)

    def bool(self, name):
        return name.endswith("_common_first")


class _Fixed:
    """Leaf provider with fixed values (size calibration)."""

    def uint(self, name, hi=None):
        return 7

    def bool(self, name):
        return False


def _stored(cbormodel, b):
    v = cbormodel.plain_loads(b)
    return cbormodel.plain_dumps(cbormodel.CBORTag(107, cbormodel.PairDict([(k, x) for k, x in v.value.items() if k in (2, 3)])))


# ------------------------------------------------------------------------------------------------ replay


def replay(obligation, params, cex):
    import cbor2

    import suit_generator.cmd_image as CI
    from props.c02 import CexLeaves
    from suit_generator.exceptions import GeneratorError, SUITError
    from suit_generator.input_output import InputOutputMixin

    from vlib.hexread import read_hex, segments

    if obligation == "slot_tables_disjoint":
        return dict(reproduced=True, detail=f"layout table defect {cex.get('layout')}")
    L = CexLeaves(cex)
    d = tempfile.mkdtemp(prefix="verif-c07r-")
    try:
        out = os.path.join(d, "out")
        os.makedirs(out)
        base = cex.get("base", 0)
        if obligation == "rejections":
            mode = cex.get("mode", "no_cid")
            cname = "nRF54H20_sample_app"
            soc = "nrf5340" if mode == "unknown_soc" else "nrf54h20"
            if mode in ("fits_exactly", "one_byte_too_big"):
                b0 = InputOutputMixin.prepare_suit_data(make_desc(_Fixed(), "e0", cname, uri_len=600))
                st = cbor2.loads(b0)
                rec0 = len(cbor2.dumps({0: 1, 1: 300, 2: cbor2.dumps(cbor2.CBORTag(107, {k: v for k, v in st.value.items() if k in (2, 3)}))}))
                ulen = 600 + (1024 - rec0) + (1 if mode == "one_byte_too_big" else 0)
                desc = make_desc(_Fixed(), "e0", cname, uri_len=ulen)
            else:
                desc = make_desc(L, "e0", cname, with_cid=(mode != "no_cid"))
            f = os.path.join(d, "in0.suit")
            open(f, "wb").write(InputOutputMixin.prepare_suit_data(desc))
            fsec = os.path.join(d, "sec.suit")
            open(fsec, "wb").write(InputOutputMixin.prepare_suit_data(make_desc(_Fixed(), "s", "nRF54H20_nordic_top")))
            files = [fsec, os.path.join(d, "absent.suit")] if mode == "missing_file" else [fsec, f]
            try:
                CI.ImageCreator.create_files_for_boot(files, out, base, None, soc)
                raised = None
            except (GeneratorError, SUITError) as ex:
                raised = type(ex).__name__
            except Exception as ex:  # noqa
                return dict(reproduced=True, detail=f"{mode}: raises {type(ex).__name__}: {ex}")
            left = os.listdir(out)
            if mode == "fits_exactly":
                return dict(reproduced=raised is not None or len(left) != 2, detail=f"record exactly as large as its slot (next to a valid secure-domain envelope): raised={raised}, files={left}")
            return dict(reproduced=raised is None or bool(left), detail=f"{mode}: raised={raised}, files left={left}")
        soc, n = params.get("soc", "nrf54h20"), params.get("n", 1)
        storage_cls = CI.EnvelopeStorageNrf54h20 if soc == "nrf54h20" else CI.EnvelopeStorageNrf9280
        inputs = []
        files = []
        table, cfg_text = role_table(storage_cls, params.get("cfg"))
        cfg_file = None
        if cfg_text is not None:
            cfg_file = os.path.join(d, "sb.config")
            open(cfg_file, "w").write(cfg_text)
        for i in range(n):
            vendor, cname, role = L.sel(f"class{i}", table)
            if n == 1:
                desc = make_desc(L, f"e{i}", cname, severed=params.get("severed"), vendor=vendor)
            else:
                class _RS:
                    def uint(self_, name, hi=None):
                        return L.uint(name)

                    def bool(self_, name):
                        return name.endswith("_common_first")

                desc = make_desc(_RS(), f"e{i}", cname, vendor=vendor)
            b = InputOutputMixin.prepare_suit_data(desc)
            f = os.path.join(d, f"in{i}.suit")
            open(f, "wb").write(b)
            files.append(f)
            inputs.append(((vendor, cname), role, b))
        roles = [r for _, r, _ in inputs]
        layout_roles = [en["role"].name for en in storage_cls._LAYOUT]
        bad_input = any(r is None or r not in layout_roles for r in roles) or len(set(roles)) != len(roles)
        try:
            CI.ImageCreator.create_files_for_boot(files, out, base, cfg_file, soc)
            raised = None
        except (GeneratorError, SUITError) as ex:
            raised = type(ex).__name__
        except Exception as ex:  # noqa
            return dict(reproduced=True, detail=f"raises {type(ex).__name__}: {ex}")
        left = sorted(os.listdir(out))
        if bad_input:
            return dict(reproduced=raised is None or bool(left), detail=f"invalid set {roles}: raised={raised}, files={left}")
        if raised:
            return dict(reproduced=True, detail=f"valid set {roles} rejected: {raised}")
        doms = sorted(set(DOMAIN_OF[r[:3]] for r in roles))
        if left != sorted(f"suit_installed_envelopes_{dm}_merged.hex" for dm in doms):
            return dict(reproduced=True, detail=f"files {left} for domains {doms}")
        for dm in doms:
            mem = read_hex(open(os.path.join(out, f"suit_installed_envelopes_{dm}_merged.hex")).read())
            segs = dict(segments(mem))
            mine = [(c, r, b) for c, r, b in inputs if DOMAIN_OF[r[:3]] == dm]
            exp_addrs = set()
            for cname, role, b in mine:
                entry = [en for en in storage_cls._LAYOUT if en["role"].name == role][0]
                a = base + entry["offset"]
                data = bytes(mem.get(a + i, -1) if mem.get(a + i, -1) >= 0 else 0 for i in range(entry["size"]))
                if any((a + i) not in mem for i in range(entry["size"])):
                    return dict(reproduced=True, detail=f"{role}: slot not fully written at {a:#x}")
                exp_addrs.update(range(a, a + entry["size"]))
                dec = cbor2.CBORDecoder(__import__("io").BytesIO(data))
                slot = dec.decode()
                used = dec.fp.tell()
                v = cbor2.loads(b)
                stored = cbor2.dumps(cbor2.CBORTag(107, {k: x for k, x in v.value.items() if k in (2, 3)}))
                cid = real_uuid.uuid5(real_uuid.uuid5(real_uuid.NAMESPACE_DNS, cname[0]), cname[1]).bytes
                if list(slot.keys()) != [0, 1, 2] or slot[0] != 1 or slot[2] != stored:
                    return dict(reproduced=True, detail=f"{role}: slot record is not {{0:1, 1:off, 2:input stripped of severables/payloads}}")
                if slot[2][slot[1] : slot[1] + 16] != cid:
                    return dict(reproduced=True, detail=f"{role}: class id offset {slot[1]} does not point at the class UUID")
                if data[used:] != b"\xff" * (entry["size"] - used):
                    return dict(reproduced=True, detail=f"{role}: padding is not FF")
            if set(mem) != exp_addrs:
                return dict(reproduced=True, detail=f"{dm}: hex file holds data outside the slots of its envelopes")
        return dict(reproduced=False, detail="slots as specified")
    finally:
        import shutil

        shutil.rmtree(d, ignore_errors=True)
