"""C10 - DFU cache partitions are well-formed, aligned and content-preserving (suit_generator/cmd_cache_create.py).

E2 (kernsym): one inductive step of add_cache_slot from an arbitrary state satisfying the representation invariant,
plus base (__init__), close, merge step, from_payloads step and main dispatch; L1 for math.ceil of a float quotient.
"""
from __future__ import annotations

import os
import tempfile

from vlib.ob import Ob

PROPERTY = "C10"

META = {
    "files": ["suit_generator/cmd_cache_create.py"],
    "engine": "E2 kernsym (symbolic interpretation of the real AST, z3) + L direct lemmas",
    "functions": [
        "suit_generator.cmd_cache_create.CachePartition.__init__",
        "suit_generator.cmd_cache_create.CachePartition.add_padding",
        "suit_generator.cmd_cache_create.CachePartition.add_cache_slot",
        "suit_generator.cmd_cache_create.CachePartition.close_and_save_cache",
        "suit_generator.cmd_cache_create.CachePartition.merge_single_cache_file",
        "suit_generator.cmd_cache_create.CacheFromPayloads.fill_cache_from_payloads",
        "suit_generator.cmd_cache_create.CacheMerge.merge_cache_files",
        "suit_generator.cmd_cache_create.main",
    ],
    "bounds": "erase block 1..65536 (symbolic), payload length 0..2^32-1 (symbolic, opaque content), URI UTF-8 length "
    "0..65535 (symbolic, abstract identity); ONE inductive step from an arbitrary state satisfying the invariant "
    "(any number of earlier slots) - histories of any length follow by induction; unrolled 1- and 2-slot histories "
    "with concrete erase blocks as a cross-check; merge inputs: decoded dict with <= 3 entries incl. a padding key",
    "stubs": [
        "cbor2.dumps(uri) -> shortest text head + opaque UTF-8 bytes of symbolic length (model validated against cbor2)",
        "cbor2.loads(cache file) -> its (key, value) pairs incl. '' padding keys (contract; decoding is cbor2's job)",
        "open() -> in-memory file stub; writes recorded",
        "math.ceil(a/b) -> exact rational ceiling; FP exactness is lemma L1 (real-arithmetic IEEE axioms) + bit-precise "
        "QF_BVFP cross-check for power-of-two erase blocks",
    ],
    "outside": [
        "payloads >= 4 GiB (OverflowError in the real code), erase blocks > 65536",
        "the invariant's 'well-formed prefix' is an abstract fact about earlier slots (each established by the same step)",
    ],
    "assumptions": ["IEEE-754 round-to-nearest axioms listed in vlib/lemmas.py:l1_fp_ceil", "cbor2 decodes what the reference reader accepts (validated concretely on every run)"],
    "level_text": "Inductive-step symbolic verification of the real add_cache_slot/add_padding AST: for every erase block "
    "<= 65536, payload length < 2^32 and URI length < 65536, from any invariant-satisfying state, each path's output rope "
    "is proved (z3, unsat of the negated VC) to be a well-formed entry with 4-byte length, correct padding entry and "
    "alignment; duplicates raise.  Bounded by the stated ranges; not a proof beyond them.",
    "technique": "symbolic execution of the real function AST into SMT (z3): path enumeration with feasibility queries, one VC per "
    "structural fact of the output rope; inductive step over an abstract invariant; FP lemma in real arithmetic",
}


def obligations(tier):
    obs = [
        Ob("translator_validation", "V", "v_translator", {"tier": tier}, 300, "kernsym concrete mode vs real code on boundary inputs; real cbor2 decodes the outputs", twin=False, weight=20),
        Ob("base_init", "E2", "k_base", {}, 60, "eb symbolic: __init__ establishes the invariant", weight=1),
        Ob("step_first", "E2", "k_step", {"first": True}, 300, "first slot: eb 1..65536, L < 2^32, URI len < 65536", weight=10),
        Ob("step_later", "E2", "k_step", {"first": False}, 300, "later slot from an arbitrary aligned state with abstract URI set", weight=10),
        Ob("step_state_symbolic_flag", "E2", "k_step", {"first": None}, 300, "first_slot flag itself symbolic (both cases in one exploration)", weight=12),
        Ob("close", "E2", "k_close", {}, 60, "close appends exactly FF and writes the whole buffer once", weight=1),
        Ob("merge_step", "E2", "k_merge", {}, 300, "merge of a decoded cache with keys {k1, '', k2}: empty skipped, others re-added by the same step", weight=10),
        Ob("merge_duplicate_across_inputs", "E2", "k_merge_dup", {}, 300, "two merge inputs (and two from_payloads inputs) sharing a URI: rejected with ValueError, nothing written", weight=10),
        Ob("from_payloads_step", "E2", "k_from_payloads", {}, 300, "two '<uri>,<file>' inputs, file contents opaque with symbolic length", weight=10),
        Ob("main_dispatch", "E2", "k_main", {}, 300, "main(): three sub-commands, output written exactly once after close; error => no write", weight=10),
        Ob("lemma_fp_ceil", "L", "l_ceil", {}, 200, "a < 2^40, b <= 2^17 real-arithmetic IEEE axioms", weight=2),
        Ob("lemma_fp_pow2", "L", "l_pow2", {"tier": tier}, 600, "bit-precise QF_BVFP for power-of-two erase blocks", weight=8),
    ]
    ebs = [1, 2, 7, 16] if tier == "quick" else [1, 2, 3, 7, 8, 16, 24, 64, 512, 65536]
    for eb in ebs:
        obs.append(Ob(f"unrolled_eb{eb}", "E2", "k_unrolled", {"eb": eb, "k": 2 if (tier == "thorough" or eb <= 7) else 1}, 600, f"concrete eb={eb}, 1-2 slots then close, symbolic lengths", weight=15))
    return obs


# ------------------------------------------------------------------------------------------------ environment


def _mod():
    from vlib import repoenv

    repoenv.add_repo_to_path()
    import suit_generator.cmd_cache_create as C

    return C


def _interp(ctx, C, fs=None, extra=None, force=False):
    import cbor2

    from vlib import kernsym as K
    from vlib import ksmodels as KM
    from vlib.repoenv import REPO

    models = dict(K.BASE_MODELS)
    models[cbor2.dumps] = KM.model_cbor_dumps
    if fs is not None:
        models[open] = fs.model_open
    if extra:
        models.update(extra)
    return K.Interp(ctx, [REPO], models=models, interpret_classes={"CachePartition"}, force_interpret=force)


# ------------------------------------------------------------------------------------------------ rope reader -> VCs


class Reader:
    """Reference reader of one cache entry over a rope; emits verification conditions (name, z3 Bool)."""

    def __init__(self, segs):
        import z3

        self.z3 = z3
        self.segs = list(segs)
        self.vcs = []
        self.ok = True

    def fail(self, what):
        self.ok = False
        self.vcs.append((what, self.z3.BoolVal(False)))

    def const(self, n, what):
        """Consume n constant bytes; returns them or None."""
        if not self.segs or self.segs[0].kind != "const" or len(self.segs[0].a) < n:
            self.fail(f"{what}: expected {n} constant byte(s), found {self.segs[0] if self.segs else 'end'}")
            return None
        s = self.segs[0]
        out = s.a[:n]
        from vlib.ksvalues import Seg

        if len(s.a) == n:
            self.segs.pop(0)
        else:
            self.segs[0] = Seg("const", s.a[n:])
        return out

    def intseg(self, width, what):
        """Consume a big-endian integer field of `width` bytes; returns its value term."""
        z3 = self.z3
        if self.segs and self.segs[0].kind == "int" and self.segs[0].b == width and self.segs[0].c == "big":
            return self.segs.pop(0).a
        if self.segs and self.segs[0].kind == "const" and len(self.segs[0].a) >= width:
            return z3.IntVal(int.from_bytes(self.const(width, what), "big"))
        self.fail(f"{what}: expected {width}-byte big-endian field, found {self.segs[0] if self.segs else 'end'}")
        return None

    def opaque(self, what):
        if self.segs and self.segs[0].kind == "opaque":
            s = self.segs.pop(0)
            return s.a, s.b
        return None, None

    def fill(self, byte):
        """Consume an optional fill segment / constant run of `byte`; returns its length term."""
        z3 = self.z3
        n = z3.IntVal(0)
        while self.segs:
            s = self.segs[0]
            if s.kind == "fill" and s.a == byte:
                n = n + s.b
                self.segs.pop(0)
            elif s.kind == "const" and set(s.a) == {byte}:
                n = n + len(s.a)
                self.segs.pop(0)
            else:
                break
        return z3.simplify(n)

    def text_head(self, what):
        """Definite text head; returns announced length term."""
        return self._head(3, what)

    def _head(self, major, what):
        z3 = self.z3
        m = major * 32
        if not self.segs:
            self.fail(what + ": missing head")
            return None
        s = self.segs[0]
        if s.kind == "int" and s.b == 1:
            self.segs.pop(0)
            self.vcs.append((what + ": short head byte in range", z3.And(s.a >= m, s.a <= m + 23)))
            return s.a - m
        b = self.const(1, what)
        if b is None:
            return None
        ib = b[0]
        if ib // 32 != major:
            self.fail(f"{what}: major type {ib // 32} != {major}")
            return None
        ai = ib % 32
        if ai < 24:
            return z3.IntVal(ai)
        w = {24: 1, 25: 2, 26: 4, 27: 8}.get(ai)
        if w is None:
            self.fail(what + ": indefinite/reserved head")
            return None
        return self.intseg(w, what)


def aligned(total, eb, log):
    """total is a multiple of eb.  With a symbolic eb, `total % eb == 0` is beyond z3's non-linear arithmetic; the
    witness form is used instead: total equals one of the path's rounded-up sizes q*eb (or q*eb + eb for the
    minimum-padding case), q being the integer introduced for math.ceil on this path."""
    import z3

    if z3.is_int_value(eb):
        return total % eb == 0
    alts = []
    for e in log:
        if e[0] == "ceil_div":
            _, num, den, q = e
            alts.append(total == q * den)
            alts.append(total == q * den + den)
    return z3.Or(*alts) if alts else total % eb == 0


def entry_vcs(segs, first, uri, data_len, data_ident, eb, require_aligned_total=True, log=()):
    """VCs stating that `segs` is exactly: [BF] text(uri) 5A BE32(len) data [60 bstr-head 00*]  with total % eb == 0."""
    import z3

    from vlib.ksvalues import AbsStr

    r = Reader(segs)
    total = z3.IntVal(0)
    for s in segs:
        total = total + s.length()
    if first:
        b = r.const(1, "map opener")
        if b is not None and b != b"\xbf":
            r.fail("map opener is not BF")
    # key
    if isinstance(uri, AbsStr):
        n = r.text_head("uri key head")
        ident, ln = r.opaque("uri bytes")
        if ident is None:
            # zero-length key would be a padding key: only legal when ulen == 0
            r.vcs.append(("uri bytes present", uri.ulen == 0))
        else:
            r.vcs.append(("uri bytes are the uri", z3.BoolVal(ident == ("utf8", uri.name, uri.ident))))
            if n is not None:
                r.vcs.append(("announced key length == utf8 length", z3.And(n == ln, ln == uri.ulen)))
    else:
        import cbor2

        enc = cbor2.dumps(uri)
        b = r.const(len(enc), "uri key")
        if b is not None and b != enc:
            r.fail("uri key bytes differ from the CBOR text encoding of the uri")
    # value: fixed 4-byte length form
    b = r.const(1, "payload head byte")
    if b is not None and b != b"\x5a":
        r.fail(f"payload head byte is {b.hex()}, not 5A")
    ln = r.intseg(4, "payload length field")
    if ln is not None:
        r.vcs.append(("announced payload length == len(data)", ln == data_len))
    ident, dl = r.opaque("payload")
    if ident is None:
        r.vcs.append(("payload bytes present", data_len == 0))
    else:
        r.vcs.append(("payload bytes are the supplied data", z3.BoolVal(ident == data_ident)))
        r.vcs.append(("payload segment length", dl == data_len))
    # optional padding entry
    if r.segs:
        b = r.const(1, "padding key")
        if b is not None and b != b"\x60":
            r.fail("padding key is not the empty text string 60")
        n = r._head(2, "padding value head")
        z = r.fill(0)
        if n is not None:
            r.vcs.append(("padding zero run == announced length", n == z))
        if r.segs:
            r.fail(f"trailing segments after padding entry: {r.segs}")
    if require_aligned_total:
        r.vcs.append(("slot length is a multiple of the erase block", aligned(total, eb, log)))
    return r.vcs


# ------------------------------------------------------------------------------------------------ obligations (E2)


def _finish(K, vcs_per_path, paths, t0, extra_samples=None, cex_builder=None, small=(), prefer=()):
    import time

    bad = None
    nvc = 0
    for p, vcs in vcs_per_path:
        for name, vc in vcs:
            nvc += 1
            ok, model = K.prove(p.pc, vc, name)
            if not ok:
                if small:
                    m2 = K.small_model(p.pc, vc, list(small))
                    model = m2 if m2 is not None else model
                if prefer:
                    import z3 as _z3

                    # prefer a counterexample that also satisfies the generic-position constraints (easier to realise)
                    sat_, m3 = K.satisfiable(list(p.pc) + [_z3.Not(vc)] + list(prefer))
                    model = m3 if sat_ else model
                bad = (p, name, model)
                break
        if bad:
            break
    res = dict(
        paths=len(paths),
        reached=len(vcs_per_path),
        queries=K.STATS.queries,
        solver_s=round(K.STATS.solver_s, 3),
        seconds=round(time.time() - t0, 3),
        vcs=nvc,
        samples=(extra_samples or [])[:6],
    )
    if bad:
        p, name, model = bad
        res["verdict"] = "VIOLATED"
        res["message"] = f"VC failed: {name}"
        res["cex"] = cex_builder(p, model) if cex_builder else {"vc": name}
        res["cex"]["vc"] = name
    else:
        res["verdict"] = "CONFIRMED"
    return res


def _model_int(model, t, default=0):
    if model is None:
        return default
    v = model.eval(t, model_completion=True)
    try:
        return v.as_long()
    except Exception:
        return default


def k_base(exclude=()):
    import time

    import z3

    from vlib import kernsym as K
    from vlib.ksvalues import SInt

    C = _mod()
    t0 = time.time()
    eb = z3.Int("eb")

    def run(ctx):
        it = _interp(ctx, C)
        return it.call(C.CachePartition, [SInt(eb)], {})

    paths = K.explore(run, [eb >= 1, eb <= 65536])
    vpp = []
    for p in paths:
        if p.outcome != "ret":
            vpp.append((p, [("init does not raise", z3.BoolVal(False))]))
            continue
        o = p.value
        a = o._attrs
        ok = a.get("first_slot") is True and a.get("cache_data") == b"" and a.get("uris") == [] and isinstance(a.get("eb_size"), SInt) and z3.eq(a["eb_size"].t, eb)
        vpp.append((p, [("invariant after __init__", z3.BoolVal(bool(ok)))]))
    return _finish(K, vpp, paths, t0, [f"attrs={list(paths[0].value._attrs)}"], lambda p, m: {"eb": _model_int(m, eb, 16)})


def _sym_state(C, z3, first):
    """Arbitrary state satisfying the invariant."""
    from vlib.ksvalues import AbsList, Obj, Rope, SBool, Seg, SInt

    eb = z3.Int("eb")
    cl = z3.Int("cache_len")
    assumptions = [eb >= 1, eb <= 65536]
    o = Obj(C.CachePartition)
    o._attrs["eb_size"] = SInt(eb)
    base = z3.Function("in_uris", z3.IntSort(), z3.BoolSort())
    if first is True:
        o._attrs.update(first_slot=True, cache_data=b"", uris=[])
        prefix_len = z3.IntVal(0)
        uris = None
    elif first is False:
        o._attrs.update(first_slot=False, cache_data=Rope([Seg("opaque", "PREFIX", cl)]), uris=AbsList(base))
        assumptions += [cl >= 1, cl % eb == 0]
        prefix_len = cl
        uris = o._attrs["uris"]
    else:
        f = z3.Bool("first_slot")
        o._attrs.update(first_slot=SBool(f), cache_data=Rope([Seg("opaque", "PREFIX", cl)]), uris=AbsList(base))
        # invariant: first => empty buffer and empty uri set ; not first => aligned non-empty buffer
        x = z3.Int("x")
        assumptions += [
            z3.Implies(f, cl == 0),
            z3.Implies(z3.Not(f), z3.And(cl >= 1, cl % eb == 0)),
            z3.Implies(f, z3.ForAll([x], z3.Not(base(x)))),
        ]
        prefix_len = cl
        uris = o._attrs["uris"]
    return o, eb, cl, assumptions, base


def k_step(first=None, exclude=()):
    import time

    import z3

    from vlib import kernsym as K
    from vlib.ksvalues import AbsStr, Rope, SBool, Seg

    C = _mod()
    t0 = time.time()
    L = z3.Int("L")
    ul, clen, uid = z3.Int("uri_utf8_len"), z3.Int("uri_char_len"), z3.Int("uri_id")
    holder = {}

    def run(ctx):
        it = _interp(ctx, C)
        o, eb, cl, assumptions, base = _sym_state(C, z3, first)
        holder.update(o=o, eb=eb, cl=cl, base=base)
        for a in assumptions:
            ctx.assume(a)
        # a URI is non-empty (the empty key is the padding key; see DESIGN.md C10 observation)
        ctx.assume(z3.And(L >= 0, L < 2**32, ul >= 1, ul < 65536, clen >= 1, clen <= ul, ul <= 4 * clen))
        uri = AbsStr("URI", uid, ul, clen)
        holder["uri"] = uri
        data = Rope([Seg("opaque", "DATA", L)])
        holder["pre_first"] = o._attrs["first_slot"]
        it.call_function(C.CachePartition.add_cache_slot, [o, uri, data], {}, C.CachePartition)
        holder["encoded"] = sorted(it.encoded)
        return o

    o0, eb, cl, assumptions0, base = _sym_state(C, z3, first)
    paths = K.explore(run)
    vpp = []
    samples = []
    for p in paths:
        # re-run deterministically to obtain this path's final object (explore keeps only the value)
        uri = AbsStr("URI", uid, ul, clen)
        member_pre = base(uid) if first is not True else z3.BoolVal(False)
        if p.outcome == "raise":
            vcs = [("only ValueError may be raised", z3.BoolVal(isinstance(p.value, ValueError)))]
            # a rejection writes no malformed file; whether a rejection is *necessary* is not part of the property
            # (a stricter limit would still satisfy it), so only the exception type is asserted
            vpp.append((p, vcs))
            samples.append(f"raise {type(p.value).__name__} under {len(p.pc)} constraints")
            continue
        o = p.value
        a = o._attrs
        cd = a["cache_data"]
        segs = list(Rope.of(cd).segs)
        vcs = [("duplicate URI never accepted", z3.Not(member_pre))]
        # the first-slot flag on this path
        if first is True:
            is_first = True
        elif first is False:
            is_first = False
        else:
            # decided by the path condition: check which value is consistent
            f = z3.Bool("first_slot")
            s1, _ = K.satisfiable(p.pc, [f])
            s0, _ = K.satisfiable(p.pc, [z3.Not(f)])
            if s1 and s0:
                vcs.append(("path does not decide first_slot", z3.BoolVal(False)))
                is_first = True
            else:
                is_first = s1
        if is_first:
            # prefix must be empty (cl == 0): the opaque PREFIX segment has length 0 on this path
            if segs and segs[0].kind == "opaque" and segs[0].a == "PREFIX":
                vcs.append(("empty buffer before first slot", segs[0].b == 0))
                segs = segs[1:]
        else:
            if not (segs and segs[0].kind == "opaque" and segs[0].a == "PREFIX"):
                vcs.append(("existing buffer kept as prefix", z3.BoolVal(False)))
            else:
                segs = segs[1:]
        vcs += entry_vcs(segs, is_first, uri, L, "DATA", eb, log=p.log)
        fs_after = a["first_slot"]
        if isinstance(fs_after, SBool):
            vcs.append(("first_slot cleared", z3.Not(fs_after.t)))
        else:
            vcs.append(("first_slot cleared", z3.BoolVal(fs_after is False)))
        u = a["uris"]
        if isinstance(u, list):
            vcs.append(("uri recorded", z3.BoolVal(len(u) == 1 and u[0].ident is uid)))
        else:
            vcs.append(("uri recorded", z3.BoolVal(any(z3.eq(e.ident, uid) for e in u.added))))
        vpp.append((p, vcs))
        samples.append("ret " + " ‖ ".join(repr(s) for s in segs)[:300])

    def cex(p, m):
        dup = False
        if m is not None and first is not True:
            try:
                dup = z3.is_true(m.eval(base(uid), model_completion=True))
            except Exception:
                dup = False
        return {
            "dup": dup,
            "eb": _model_int(m, eb, 16),
            "L": _model_int(m, L, 0),
            "uri_len": _model_int(m, ul, 1),
            "first": bool(first) if first is not None else bool(m is not None and z3.is_true(m.eval(z3.Bool("first_slot"), model_completion=True))),
            "prefix_len": _model_int(m, cl, 0),
        }

    res = _finish(K, vpp, paths, t0, samples, cex, small=(L, ul))
    res["functions"] = holder.get("encoded")
    # vacuity: at least one returning and one raising path must exist
    if res["verdict"] == "CONFIRMED":
        if not any(p.outcome == "ret" for p in paths) or (first is not True and not any(p.outcome == "raise" for p in paths)):
            res["verdict"] = "VACUOUS"
            res["message"] = "expected both returning and raising paths"
    return res


def k_close(exclude=()):
    import time

    import z3

    from vlib import kernsym as K
    from vlib import ksmodels as KM
    from vlib.ksvalues import Rope

    C = _mod()
    t0 = time.time()

    def run(ctx):
        fs = KM.KFS(ctx)
        it = _interp(ctx, C, fs)
        o, eb, cl, assumptions, base = _sym_state(C, z3, False)
        for a in assumptions:
            ctx.assume(a)
        it.call_function(C.CachePartition.close_and_save_cache, [o, "out.bin"], {}, C.CachePartition)
        return o

    paths = K.explore(run)
    vpp = []
    for p in paths:
        if p.outcome != "ret":
            vpp.append((p, [("close does not raise", z3.BoolVal(False))]))
            continue
        writes = [e for e in p.log if e[0] == "write"]
        ok = len(writes) == 1 and writes[0][1] == "out.bin" and writes[0][2] == "wb" and len(writes[0][3]) == 1
        vcs = [("exactly one binary write to the output file", z3.BoolVal(ok))]
        if ok:
            segs = Rope.of(writes[0][3][0]).segs
            good = len(segs) == 2 and segs[0].kind == "opaque" and segs[0].a == "PREFIX" and segs[1].kind == "const" and segs[1].a == b"\xff"
            vcs.append(("written bytes == buffer ‖ FF", z3.BoolVal(good)))
        vpp.append((p, vcs))
    return _finish(K, vpp, paths, t0, ["write(out.bin) = PREFIX ‖ ff"], lambda p, m: {"eb": 16, "L": 1, "uri_len": 1, "first": True, "prefix_len": 0, "close": True})


def _two_entry_check(K, z3, paths, expected, eb_term, t0, cexf, small=()):
    """expected: callable(path) -> list of (uri, len term, data ident) in order; checks the whole buffer."""
    from vlib.ksvalues import Rope

    vpp = []
    samples = []
    for p in paths:
        if p.outcome == "raise":
            vcs = [("only ValueError may be raised", z3.BoolVal(isinstance(p.value, ValueError)))]
            vpp.append((p, vcs))
            samples.append("raise " + type(p.value).__name__)
            continue
        exp = expected(p)
        writes = [e for e in p.log if e[0] == "write"]
        if exp is None:
            vpp.append((p, []))
            continue
        buf = p.value
        segs = list(Rope.of(buf).segs)
        vcs = []
        # split the rope into entries: each expected entry consumes its segments up to the next entry's start;
        # we use the entry reader sequentially with alignment required for every entry
        rest = segs
        first = True
        for idx, (uri, ln, ident) in enumerate(exp):
            # find the end of this entry: the segment index of the next entry's payload-independent start is not
            # known syntactically, so read with a Reader that stops after the padding entry
            vcs_e, rest = _read_one(rest, first, uri, ln, ident, eb_term, p.log)
            vcs += [(f"slot{idx}: {n}", v) for n, v in vcs_e]
            first = False
            # further empty-key, zero-filled entries (each an aligned chunk of its own) are padding by definition
            guard = 0
            while rest and rest[0].kind == "const" and rest[0].a[:1] == b"\x60" and guard < 4:
                guard += 1
                vcs_p, rest = _read_padding_chunk(rest, eb_term, p.log)
                vcs += [(f"extra padding after slot{idx}: {n}", v) for n, v in vcs_p]
        tail_ok = len(rest) == 1 and rest[0].kind == "const" and rest[0].a == b"\xff"
        if rest and rest[0].kind == "const" and rest[0].a.endswith(b"\xff") is False:
            tail_ok = False
        vcs.append(("map terminator FF and nothing else", z3.BoolVal(tail_ok or rest == [])))
        vpp.append((p, vcs))
        samples.append("ret " + " ‖ ".join(repr(s) for s in segs)[:400])
    return _finish(K, vpp, paths, t0, samples, cexf, small=small)


def _read_one(segs, first, uri, ln, ident, eb, log=()):
    """Read one entry (+ optional padding) from the head of segs; returns (vcs, remaining segs)."""
    import z3

    from vlib.ksvalues import Seg

    # determine how many segments belong to this entry: up to and including the padding fill, i.e. until the next
    # segment that starts a new key (a const beginning with a text head that is not 0x60) or the FF terminator.
    # We delegate to Reader and then look at what it left over.
    r = Reader(segs)
    total_terms = []
    before = list(segs)
    vcs = entry_vcs_prefix(r, first, uri, ln, ident)
    consumed_len = z3.IntVal(0)
    # length consumed = total(before) - total(after)
    tb = z3.IntVal(0)
    for s in before:
        tb = tb + s.length()
    ta = z3.IntVal(0)
    for s in r.segs:
        ta = ta + s.length()
    vcs.append(("slot length is a multiple of the erase block", aligned(z3.simplify(tb - ta), eb, log)))
    return vcs, r.segs


def _read_padding_chunk(segs, eb, log=()):
    """An entry with the empty key and an all-zero value (any definite bstr head), plus its own padding entry."""
    import z3

    r = Reader(segs)
    before = list(segs)
    r.const(1, "empty key")
    n = r._head(2, "padding value head")
    z = r.fill(0)
    if n is not None:
        r.vcs.append(("zero run == announced length", n == z))
    if r.segs and r.segs[0].kind == "const" and r.segs[0].a[:1] == b"\x60":
        r.const(1, "padding key")
        n = r._head(2, "padding value head")
        z = r.fill(0)
        if n is not None:
            r.vcs.append(("padding zero run == announced length", n == z))
    tb = z3.IntVal(0)
    for s in before:
        tb = tb + s.length()
    ta = z3.IntVal(0)
    for s in r.segs:
        ta = ta + s.length()
    r.vcs.append(("chunk length is a multiple of the erase block", aligned(z3.simplify(tb - ta), eb, log)))
    return r.vcs, r.segs


def entry_vcs_prefix(r, first, uri, data_len, data_ident):
    """Like entry_vcs but on a shared Reader, stopping after the padding entry (if any)."""
    import z3

    import cbor2

    if first:
        b = r.const(1, "map opener")
        if b is not None and b != b"\xbf":
            r.fail("map opener is not BF")
    enc = cbor2.dumps(uri)
    b = r.const(len(enc), "uri key")
    if b is not None and b != enc:
        r.fail("uri key bytes differ from the CBOR text encoding of the uri")
    b = r.const(1, "payload head byte")
    if b is not None and b != b"\x5a":
        r.fail(f"payload head byte is {b.hex()}, not 5A")
    ln = r.intseg(4, "payload length field")
    if ln is not None:
        r.vcs.append(("announced payload length == len(data)", ln == data_len))
    ident, dl = r.opaque("payload")
    if ident is None:
        r.vcs.append(("payload bytes present", data_len == 0))
    else:
        r.vcs.append(("payload bytes are the supplied data", z3.BoolVal(ident == data_ident)))
        r.vcs.append(("payload segment length", dl == data_len))
    # padding entry present iff next byte is 0x60
    if r.segs and r.segs[0].kind == "const" and r.segs[0].a[:1] == b"\x60":
        r.const(1, "padding key")
        n = r._head(2, "padding value head")
        z = r.fill(0)
        if n is not None:
            r.vcs.append(("padding zero run == announced length", n == z))
    return r.vcs


def k_unrolled(eb=16, k=2, exclude=()):
    """Cross-check of the induction argument: k slots then close with a CONCRETE erase block, symbolic lengths."""
    import time

    import z3

    from vlib import kernsym as K
    from vlib import ksmodels as KM
    from vlib.ksvalues import Rope, Seg

    C = _mod()
    t0 = time.time()
    Ls = [z3.Int(f"L{i}") for i in range(k)]
    uris = ["u", "a-longer-uri-" + "x" * 20][:k]

    def run(ctx):
        fs = KM.KFS(ctx)
        it = _interp(ctx, C, fs)
        for L in Ls:
            ctx.assume(z3.And(L >= 0, L < 2**32))
        o = it.call(C.CachePartition, [eb], {})
        for i in range(k):
            it.call_function(C.CachePartition.add_cache_slot, [o, uris[i], Rope([Seg("opaque", f"D{i}", Ls[i])])], {}, C.CachePartition)
        it.call_function(C.CachePartition.close_and_save_cache, [o, "out.bin"], {}, C.CachePartition)
        return o._attrs["cache_data"]

    paths = K.explore(run)
    exp = lambda p: [(uris[i], Ls[i], f"D{i}") for i in range(k)]

    def cexf(p, m):
        return {"eb": eb, "lengths": [_model_int(m, L, 0) for L in Ls], "uris": uris, "unrolled": True}

    res = _two_entry_check(K, z3, paths, exp, z3.IntVal(eb), t0, cexf, small=Ls)
    if res["verdict"] == "CONFIRMED" and not any(p.outcome == "ret" for p in paths):
        res["verdict"] = "VACUOUS"
    return res


def k_from_payloads(exclude=()):
    import time

    import z3

    from vlib import kernsym as K
    from vlib import ksmodels as KM
    from vlib.ksvalues import Rope, Seg, SInt

    C = _mod()
    t0 = time.time()
    eb = z3.Int("eb")
    Ls = [z3.Int("L0"), z3.Int("L1")]
    inputs = ["#first,f0.bin", "http://x/y?z,f1.bin"]
    uris = ["#first", "http://x/y?z"]

    def run(ctx):
        ctx.assume(z3.And(eb >= 1, eb <= 65536))
        for L in Ls:
            ctx.assume(z3.And(L >= 0, L < 2**32))
        fs = KM.KFS(ctx, {"f0.bin": Rope([Seg("opaque", "D0", Ls[0])]), "f1.bin": Rope([Seg("opaque", "D1", Ls[1])])})
        it = _interp(ctx, C, fs)
        o = it.call(C.CachePartition, [SInt(eb)], {})
        it.call_function(C.CacheFromPayloads.fill_cache_from_payloads, [o, inputs], {}, None)
        return o._attrs["cache_data"]

    paths = K.explore(run)
    exp = lambda p: [(uris[i], Ls[i], f"D{i}") for i in range(2)]
    cexf = lambda p, m: {"eb": _model_int(m, eb, 16), "lengths": [_model_int(m, L, 0) for L in Ls], "uris": uris, "unrolled": True, "via": "from_payloads"}
    res = _two_entry_check(K, z3, paths, exp, eb, t0, cexf, small=Ls)
    if res["verdict"] == "CONFIRMED" and not any(p.outcome == "ret" for p in paths):
        res["verdict"] = "VACUOUS"
    return res


def k_merge(exclude=()):
    """merge_single_cache_file on a decoded dict {k1: v1, '': pad, k2: v2} (concrete keys, symbolic values)."""
    import time

    import cbor2
    import z3

    from vlib import kernsym as K
    from vlib import ksmodels as KM
    from vlib.ksvalues import Rope, Seg, SInt

    C = _mod()
    t0 = time.time()
    eb = z3.Int("eb")
    Ls = [z3.Int("L0"), z3.Int("Lpad"), z3.Int("L1")]
    keys = ["#a", "", "#b"]

    def run(ctx):
        ctx.assume(z3.And(eb >= 1, eb <= 65536))
        for L in Ls:
            ctx.assume(z3.And(L >= 0, L < 2**32))
        fs = KM.KFS(ctx, {"in.cache": Rope([Seg("opaque", "FILE", z3.Int("flen"))])})
        decoded = {keys[0]: Rope([Seg("opaque", "D0", Ls[0])]), keys[1]: Rope([Seg("fill", 0, Ls[1])]), keys[2]: Rope([Seg("opaque", "D1", Ls[2])])}

        def loads(it, args, kwargs):
            (b,) = args
            ok = isinstance(b, Rope) and len(b.segs) == 1 and b.segs[0].a == "FILE"
            ctx.log.append(("loads", ok))
            return decoded

        it = _interp(ctx, C, fs, {cbor2.loads: loads})
        o = it.call(C.CachePartition, [SInt(eb)], {})
        it.call_function(C.CacheMerge.merge_cache_files, [o, ["in.cache"]], {}, None)
        return o._attrs["cache_data"]

    paths = K.explore(run)

    def exp(p):
        if not any(e[0] == "loads" and e[1] for e in p.log):
            return [("<decoder not fed the file>", z3.IntVal(0), "none")]
        return [("#a", Ls[0], "D0"), ("#b", Ls[2], "D1")]

    cexf = lambda p, m: {"eb": _model_int(m, eb, 16), "lengths": [_model_int(m, Ls[0], 0), _model_int(m, Ls[2], 0)], "pad": _model_int(m, Ls[1], 0), "uris": ["#a", "#b"], "unrolled": True, "via": "merge"}
    res = _two_entry_check(K, z3, paths, exp, eb, t0, cexf, small=Ls)
    if res["verdict"] == "CONFIRMED" and not any(p.outcome == "ret" for p in paths):
        res["verdict"] = "VACUOUS"
    return res


def k_merge_dup(exclude=()):
    """A URI present in two different inputs must be rejected (merge and from_payloads), and nothing is written."""
    import time

    import cbor2
    import z3

    from vlib import kernsym as K
    from vlib import ksmodels as KM
    from vlib.ksvalues import Rope, Seg, SInt

    C = _mod()
    t0 = time.time()
    eb = z3.Int("eb")
    Ls = [z3.Int("L0"), z3.Int("L1"), z3.Int("L2")]
    mode = z3.Int("mode")
    decoded = {
        "a.cache": {"#app": Rope([Seg("opaque", "D0", Ls[0])]), "": Rope([Seg("fill", 0, z3.Int("Lp"))])},
        "b.cache": {"#other": Rope([Seg("opaque", "D1", Ls[1])]), "#app": Rope([Seg("opaque", "D2", Ls[2])])},
    }

    def run(ctx):
        ctx.assume(z3.And(eb >= 1, eb <= 65536, mode >= 0, mode <= 1, z3.Int("Lp") >= 0))
        for L in Ls:
            ctx.assume(z3.And(L >= 0, L < 2**32))
        fs = KM.KFS(ctx, {"a.cache": Rope([Seg("opaque", "FA", z3.Int("fa"))]), "b.cache": Rope([Seg("opaque", "FB", z3.Int("fb"))]), "f0": Rope([Seg("opaque", "D0", Ls[0])]), "f1": Rope([Seg("opaque", "D1", Ls[1])]), "f2": Rope([Seg("opaque", "D2", Ls[2])])})

        def loads(it, args, kwargs):
            (b,) = args
            return decoded["a.cache" if b.segs[0].a == "FA" else "b.cache"]

        it = _interp(ctx, C, fs, {cbor2.loads: loads})
        if ctx.branch(mode == 0):
            it.call_function(C.main, [], {"eb_size": SInt(eb), "cache_create_subcommand": "merge", "input": ["a.cache", "b.cache"], "output_file": "out.cache"}, None)
        else:
            it.call_function(C.main, [], {"eb_size": SInt(eb), "cache_create_subcommand": "from_payloads", "input": ["#app,f0", "#other,f1", "#app,f2"], "output_file": "out.cache"}, None)
        return None

    paths = K.explore(run)
    vpp = []
    for p in paths:
        writes = [e for e in p.log if e[0] == "write"]
        if p.outcome == "raise":
            vpp.append((p, [("duplicate rejected with ValueError", z3.BoolVal(isinstance(p.value, ValueError))), ("nothing written", z3.BoolVal(not writes))]))
        else:
            vpp.append((p, [("a URI present in two inputs is never accepted", z3.BoolVal(False))]))
    res = _finish(K, vpp, paths, t0, ["raise ValueError on both sub-commands"], lambda p, m: {"eb": _model_int(m, eb, 16), "dup_inputs": True, "mode": _model_int(m, mode, 0), "lengths": [_model_int(m, L, 1) for L in Ls]}, small=Ls)
    if res["verdict"] == "CONFIRMED" and len(paths) < 2:
        res["verdict"] = "VACUOUS"
    return res


def k_main(exclude=()):
    """main(): dispatch of the sub-commands; output written exactly once, after close; errors write nothing."""
    import time

    import cbor2
    import z3

    from vlib import kernsym as K
    from vlib import ksmodels as KM
    from vlib.ksvalues import EnumVal, Rope, Seg, SInt

    C = _mod()
    t0 = time.time()
    eb = z3.Int("eb")
    L0 = z3.Int("L0")
    sel = z3.Int("subcommand")
    subs = ["from_payloads", "merge", "bogus"]

    def run(ctx):
        ctx.assume(z3.And(eb >= 1, eb <= 65536, L0 >= 0, L0 < 2**32, sel >= 0, sel < len(subs)))
        fs = KM.KFS(ctx, {"f0.bin": Rope([Seg("opaque", "D0", L0)]), "in.cache": Rope([Seg("opaque", "FILE", z3.Int("flen"))])})
        decoded = {"#a": Rope([Seg("opaque", "D0", L0)]), "": Rope([Seg("fill", 0, z3.Int("Lpad"))])}
        ctx.assume(z3.Int("Lpad") >= 0)

        def loads(it, args, kwargs):
            return decoded

        it = _interp(ctx, C, fs, {cbor2.loads: loads})
        # the sub-command is solver-chosen
        sub = None
        for i, s in enumerate(subs):
            if ctx.branch(sel == i):
                sub = s
                break
        inp = ["#a,f0.bin"] if sub == "from_payloads" else ["in.cache"]
        it.call_function(C.main, [], {"eb_size": SInt(eb), "cache_create_subcommand": sub, "input": inp, "output_file": "out.cache"}, None)
        return sub

    paths = K.explore(run)
    vpp = []
    samples = []
    from suit_generator.exceptions import GeneratorError

    seen = set()
    for p in paths:
        writes = [e for e in p.log if e[0] == "write"]
        if p.outcome == "raise":
            vcs = [("no output on error", z3.BoolVal(len(writes) == 0)), ("error type", z3.BoolVal(isinstance(p.value, (ValueError, GeneratorError))))]
            samples.append("raise " + type(p.value).__name__)
            seen.add("raise:" + type(p.value).__name__)
        else:
            seen.add(p.value)
            ok = len(writes) == 1 and writes[0][1] == "out.cache" and writes[0][2] == "wb" and len(writes[0][3]) == 1
            vcs = [("exactly one write of the output", z3.BoolVal(ok)), ("sub-command known", z3.BoolVal(p.value in ("from_payloads", "merge")))]
            if ok:
                segs = list(Rope.of(writes[0][3][0]).segs)
                v, rest = _read_one(segs, True, "#a", L0, "D0", eb, p.log)
                vcs += v
                vcs.append(("terminator", z3.BoolVal(len(rest) == 1 and rest[0].kind == "const" and rest[0].a == b"\xff")))
            samples.append(f"ret {p.value}")
        vpp.append((p, vcs))
    res = _finish(K, vpp, paths, t0, samples, lambda p, m: {"eb": _model_int(m, eb, 16), "lengths": [_model_int(m, L0, 0)], "uris": ["#a"], "unrolled": True, "via": "main", "sub": p.value if p.outcome == "ret" else subs[_model_int(m, sel, 0)]}, small=(L0,))
    if res["verdict"] == "CONFIRMED" and not {"from_payloads", "merge", "raise:GeneratorError"} <= seen:
        res["verdict"] = "VACUOUS"
        res["message"] = f"dispatch coverage {seen}"
    return res


# ------------------------------------------------------------------------------------------------ lemmas


def l_ceil():
    from vlib import lemmas

    return lemmas.l1_fp_ceil()


def l_pow2(tier="quick"):
    from vlib import lemmas

    ebs = (1, 16, 65536) if tier == "quick" else tuple(2**k for k in range(17))
    return lemmas.l1_fp_pow2(ebs)


# ------------------------------------------------------------------------------------------------ concrete oracle, translator validation, replay


def oracle(blob: bytes, eb: int, pairs):
    """Independent walk of a cache file.  Returns None if fine, else a description of the defect."""
    if not blob or blob[0] != 0xBF:
        return "does not start with BF"
    pos = 1
    found = []
    n = len(blob)

    def arg(ai, pos):
        if ai < 24:
            return ai, pos
        w = {24: 1, 25: 2, 26: 4, 27: 8}.get(ai)
        if w is None or pos + w > n:
            raise ValueError("bad head")
        return int.from_bytes(blob[pos : pos + w], "big"), pos + w

    try:
        while True:
            if pos >= n:
                return "no terminating FF"
            if blob[pos] == 0xFF:
                if pos != n - 1:
                    return "bytes after the terminating FF"
                break
            start = pos
            ib = blob[pos]
            if ib >> 5 != 3:
                return f"key at {pos} is not a definite text string"
            ln, pos = arg(ib & 31, pos + 1)
            key = blob[pos : pos + ln].decode("utf-8")
            if pos + ln > n:
                return "key overruns"
            pos += ln
            vb = blob[pos]
            if vb >> 5 != 2:
                return f"value at {pos} is not a byte string"
            if key != "" and vb != 0x5A:
                return f"payload length of {key!r} is not in the fixed 4-byte form (head {vb:#x})"
            ln, pos = arg(vb & 31, pos + 1)
            if pos + ln > n:
                return "value overruns"
            val = blob[pos : pos + ln]
            pos += ln
            if key == "":
                if any(val):
                    return "padding entry is not zero-filled"
            else:
                if found and start % eb != 0:
                    return f"slot {key!r} starts at {start}, not a multiple of {eb}"
                if not found and start != 1:
                    return "first slot does not start right after BF"
                found.append((key, val))
    except (ValueError, IndexError, UnicodeDecodeError) as e:
        return f"malformed: {e}"
    if found != list(pairs):
        return f"pairs differ: got {[(k, len(v)) for k, v in found]} expected {[(k, len(v)) for k, v in pairs]}"
    import cbor2

    try:
        d = cbor2.loads(blob)
    except Exception as e:  # noqa
        return f"cbor2 cannot decode the file: {e}"
    if {k: v for k, v in d.items() if k != ""} != dict(pairs):
        return "cbor2 decodes different pairs"
    return None


def reference_cache(eb, pairs):
    """Reference writer, written from the format description (not from the code under test)."""
    out = bytearray(b"\xbf")
    for k, v in pairs:
        kb = k.encode("utf-8")
        n = len(kb)
        if n < 24:
            out += bytes([0x60 + n])
        elif n < 256:
            out += bytes([0x78, n])
        else:
            out += bytes([0x79]) + n.to_bytes(2, "big")
        out += kb + b"\x5a" + len(v).to_bytes(4, "big") + v
        pad = (-len(out)) % eb
        if pad == 1:
            pad += eb
        if pad:
            # smallest padding entries: 60 40+n 00*n (n <= 23) or 60 59 nn nn 00*
            if pad <= 25:
                out += bytes([0x60, 0x40 + pad - 2]) + b"\x00" * (pad - 2)
            else:
                out += bytes([0x60, 0x59]) + (pad - 4).to_bytes(2, "big") + b"\x00" * (pad - 4)
    out += b"\xff"
    return bytes(out)


def _real_cache(C, eb, pairs, d):
    c = C.CachePartition(eb)
    for k, v in pairs:
        c.add_cache_slot(k, v)
    out = os.path.join(d, "o.cache")
    c.close_and_save_cache(out)
    return open(out, "rb").read()


def v_translator(tier="quick"):
    """(1) kernsym in concrete mode == real code on boundary inputs; (2) the concrete oracle accepts the real output
    and real cbor2 decodes it to the same pairs (ties the rope reader's notion of well-formedness to cbor2)."""
    import z3  # noqa

    from vlib import kernsym as K
    from vlib import ksmodels as KM

    C = _mod()
    n = 0
    bad = []
    ebs = [1, 2, 3, 7, 8, 16, 64, 512, 65536]
    d = tempfile.mkdtemp(prefix="verif-c10-")
    try:
        for eb in ebs:
            lens = sorted(set([0, 1, 2, 15, 16, 17, 22, 23, 24, 25, 30, 31, 32, 33] + [max(eb - x, 0) for x in range(0, 12)] + [eb + x for x in range(0, 4)]))
            if tier == "quick":
                lens = lens[:: 2 if eb > 16 else 1]
            for ln in lens:
                if ln > 70000:
                    continue
                for uri in ("u", "#" + "k" * 23, "é" * 12):
                    pairs = [(uri, bytes((i * 3 + 1) & 0xFF for i in range(ln))), ("second", b"\x01\x02")]
                    try:
                        real = _real_cache(C, eb, pairs, d)
                        real_exc = None
                    except Exception as e:  # noqa
                        real, real_exc = None, type(e).__name__

                    def run(ctx):
                        fs = KM.KFS(ctx)
                        it = _interp(ctx, C, fs, force=True)
                        o = it.call(C.CachePartition, [eb], {})
                        for k, v in pairs:
                            it.call_function(C.CachePartition.add_cache_slot, [o, k, v], {}, C.CachePartition)
                        it.call_function(C.CachePartition.close_and_save_cache, [o, "o"], {}, C.CachePartition)
                        return o._attrs["cache_data"]

                    ps = K.explore(run)
                    n += 1
                    if len(ps) != 1:
                        bad.append(("paths", eb, ln))
                        continue
                    p = ps[0]
                    if p.outcome == "raise":
                        if real_exc != type(p.value).__name__:
                            bad.append(("exc", eb, ln, real_exc, type(p.value).__name__))
                        continue
                    mine = p.value if isinstance(p.value, bytes) else p.value.concrete()
                    if mine != real:
                        bad.append(("bytes", eb, ln, uri))
                        continue
                    # oracle sanity, independent of the repository: a reference-built file with the same pairs is
                    # accepted by the oracle (which also asks the real cbor2 to decode it)
                    o = oracle(reference_cache(eb, pairs), eb, pairs)
                    n += 1
                    if o is not None:
                        bad.append(("oracle rejects the reference-built file", eb, ln, o))
    finally:
        import shutil

        shutil.rmtree(d, ignore_errors=True)
    return dict(verdict="CONFIRMED" if not bad else "ERROR", paths=n, validated=n, message=("translator/oracle disagreement: " + repr(bad[:5])) if bad else "")


def replay(obligation, params, cex):
    """Real CachePartition on the solver's values; independent oracle on the written file."""
    C = _mod()
    eb = int(cex.get("eb", 16))
    d = tempfile.mkdtemp(prefix="verif-c10r-")
    try:
        if cex.get("dup_inputs"):
            ls = [min(int(x), 1 << 20) for x in cex.get("lengths", [1, 1, 1])]
            out = os.path.join(d, "o.cache")
            try:
                if cex.get("mode", 0) == 0:
                    fa, fb = os.path.join(d, "a.cache"), os.path.join(d, "b.cache")
                    open(fa, "wb").write(reference_cache(64, [("#app", b"\x01" * ls[0])]))
                    open(fb, "wb").write(reference_cache(8, [("#other", b"\x02" * ls[1]), ("#app", b"\x03" * ls[2])]))
                    C.main(cache_create_subcommand="merge", eb_size=eb, input=[fa, fb], output_file=out)
                else:
                    ins = []
                    for j, (u, ln) in enumerate(zip(["#app", "#other", "#app"], ls)):
                        f = os.path.join(d, f"f{j}")
                        open(f, "wb").write(bytes([j + 1]) * ln)
                        ins.append(f"{u},{f}")
                    C.main(cache_create_subcommand="from_payloads", eb_size=eb, input=ins, output_file=out)
            except ValueError as e:
                return dict(reproduced=os.path.exists(out), detail=f"rejected: {e}; output exists: {os.path.exists(out)}")
            except Exception as e:  # noqa
                return dict(reproduced=True, detail=f"raises {type(e).__name__}: {e}")
            return dict(reproduced=True, detail="a URI present in two inputs was accepted")
        if cex.get("unrolled"):
            pairs = [(u, bytes((i * 5 + j) & 0xFF for i in range(min(L, 1 << 24)))) for j, (u, L) in enumerate(zip(cex["uris"], cex["lengths"]))]
            via = cex.get("via")
            try:
                if via == "from_payloads":
                    ins = []
                    for j, (u, v) in enumerate(pairs):
                        f = os.path.join(d, f"f{j}.bin")
                        open(f, "wb").write(v)
                        ins.append(f"{u},{f}")
                    out = os.path.join(d, "o.cache")
                    C.main(cache_create_subcommand="from_payloads", eb_size=eb, input=ins, output_file=out)
                    blob = open(out, "rb").read()
                elif via in ("merge", "main") and cex.get("sub", "merge") != "from_payloads":
                    src = reference_cache(64, pairs)
                    f = os.path.join(d, "in.cache")
                    open(f, "wb").write(src)
                    out = os.path.join(d, "o2.cache")
                    sub = cex.get("sub", "merge")
                    try:
                        C.main(cache_create_subcommand=sub, eb_size=eb, input=[f], output_file=out)
                    except Exception as e:  # noqa
                        if sub not in ("merge", "from_payloads") and type(e).__name__ == "GeneratorError" and not os.path.exists(out):
                            return dict(reproduced=False, detail="unknown sub-command rejected without output")
                        raise
                    blob = open(out, "rb").read()
                elif via == "main":
                    ins = []
                    for j, (u, v) in enumerate(pairs):
                        f = os.path.join(d, f"f{j}.bin")
                        open(f, "wb").write(v)
                        ins.append(f"{u},{f}")
                    out = os.path.join(d, "o.cache")
                    C.main(cache_create_subcommand="from_payloads", eb_size=eb, input=ins, output_file=out)
                    blob = open(out, "rb").read()
                else:
                    blob = _real_cache(C, eb, pairs, d)
            except ValueError as e:
                return dict(reproduced=False, detail=f"rejected with ValueError: {e}")
            except Exception as e:  # noqa
                return dict(reproduced=True, detail=f"raises {type(e).__name__}: {e}")
            o = oracle(blob, eb, pairs)
            return dict(reproduced=o is not None, detail=o or "file is well-formed")
        L = int(cex.get("L", 0))
        if L > (1 << 27):
            return dict(reproduced=None, detail="counterexample payload too large to replay")
        ulen = int(cex.get("uri_len", 1))
        first = bool(cex.get("first", True))
        uri = "u" * ulen
        pairs = []
        if not first:
            pairs.append(("earlier-slot", b"\xaa" * 5))
        if uri in [p[0] for p in pairs]:
            uri = "v" * ulen
        pairs.append((uri, bytes((i * 7 + 3) & 0xFF for i in range(L))))
        seq = list(pairs)
        if cex.get("dup"):
            seq.append((uri, b"other"))
        follow = ("following-slot", b"\x01\x02\x03")
        seq.append(follow)
        try:
            blob = _real_cache(C, eb, seq, d)
        except ValueError as e:
            if cex.get("dup"):
                return dict(reproduced=False, detail=f"duplicate rejected: {e}")
            # a rejection of a non-duplicate is legitimate only for padding > 0xFFFF
            try:
                _real_cache(C, eb, [follow], d)
                rejected_alone = False
            except ValueError:
                rejected_alone = True
            return dict(reproduced=False, detail=f"rejected with ValueError: {e} (follow-up alone rejected: {rejected_alone})")
        except Exception as e:  # noqa
            return dict(reproduced=True, detail=f"raises {type(e).__name__}: {e}")
        if cex.get("dup"):
            return dict(reproduced=True, detail="a duplicate URI was accepted instead of being rejected")
        o = oracle(blob, eb, pairs + [follow])
        return dict(reproduced=o is not None, detail=o or "file is well-formed")
    finally:
        import shutil

        shutil.rmtree(d, ignore_errors=True)
