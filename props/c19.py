"""C19 - NCS templates yield consistent dependency wiring for every image set (ncs/*.jinja2, ncs/build.py, security.py)."""
from __future__ import annotations

import os
import tempfile
import uuid as real_uuid

from vlib.ob import Ob

PROPERTY = "C19"

META = {
    "files": ["ncs/root_with_nordic_top_envelope.yaml.jinja2", "ncs/nordic_top_envelope.yaml.jinja2", "ncs/build.py", "suit_generator/suit/security.py"],
    "functions": [
        "ncs.build.render_template + the two shipped templates (Jinja2, executed concretely per solver-chosen configuration)",
        "suit_generator.input_output.InputOutputMixin.prepare_suit_data and SuitDigestExt.from_obj (envelope: path) on the rendered description (symbolic child envelopes)",
    ],
    "bounds": "root template: every non-empty subset of {radio, application, top} (solver-chosen presence flags), default / custom MPI vendor+class names, sequence-number "
    "variable in {APP_ROOT_SEQ_NUM, DEFAULT_SEQ_NUM, none}, version variable in {APP_ROOT_VERSION, DEFAULT_VERSION, none}; top template: its fixed image set, same variable "
    "classes; child envelopes created in-path with symbolic sequence numbers (uint16) and served through the in-memory file system",
    "stubs": [
        "Jinja2 rendering and yaml.safe_load run concretely once the solver has fixed the configuration flags (text processors: a symbolic string cannot pass through them)",
        "hashes.Hash / uuid5 -> token stubs; cbor2 -> cbormodel; files -> in-memory file system",
    ],
    "outside": ["image names are concrete placeholders", "arbitrary child envelope shapes (children are minimal envelopes with symbolic sequence numbers)"],
    "assumptions": [],
    "level_text": "The finite configuration space is enumerated by the solver through symbolic presence flags; for each configuration the rendered description is created with symbolic "
    "child envelopes and an abstract interpretation of the description / output checks the wiring clauses on every path.",
}

SUBSETS = [(1, 0, 0), (0, 1, 0), (0, 0, 1), (1, 1, 0), (1, 0, 1), (0, 1, 1), (1, 1, 1)]
NAMES = {"radio": "rad_img", "application": "app_img", "top": "nordic_top", "secdom": "secdom_img", "sysctrl": "sysctrl_img"}


def obligations(tier):
    obs = []
    for i, s in enumerate(SUBSETS):
        obs.append(Ob(f"root_subset{i}_{''.join(map(str, s))}", "E1", "h_template", {"template": "root", "subset": list(s), "mode": "flags"}, 900, f"root template, images radio/application/top = {s}: default/custom MPI names symbolic, child envelopes with symbolic sequence numbers", weight=100))
    obs.append(Ob("root_history_children_regenerated", "E1", "h_template", {"template": "root", "subset": [1, 1, 0], "mode": "flags", "history": True}, 1500, "root template built twice in one process; between the builds every child envelope is regenerated at the SAME path with another (symbolic) sequence number: the second root verifies and embeds the new children", weight=160))
    obs.append(Ob("root_variables", "E1", "h_template", {"template": "root", "subset": [1, 1, 1], "mode": "vars"}, 900, "root template, all images: sequence-number and version variable classes (3x3) solver-chosen", weight=100))
    obs.append(Ob("top_template", "E1", "h_template", {"template": "top", "subset": None, "mode": "flags"}, 900, "Nordic top template: child envelopes with symbolic sequence numbers", weight=100))
    obs.append(Ob("top_variables", "E1", "h_template", {"template": "top", "subset": None, "mode": "vars"}, 900, "Nordic top template: sequence-number and version variable classes (3x3) solver-chosen", weight=100))
    return obs


def _sym_children(present, mode):
    """Which children carry a solver-chosen sequence number (the others use 5): one per run keeps the
    CBOR-head-width forks additive instead of multiplicative."""
    return set(list(present)[-1:]) if mode == "flags" else set()


def _child_desc(L, name, symbolic=True):
    return {"SUIT_Envelope_Tagged": {"suit-authentication-wrapper": {"SuitDigest": {"suit-digest-algorithm-id": "cose-alg-sha-256", "suit-digest-bytes": "00"}}, "suit-manifest": {"suit-manifest-version": 1, "suit-manifest-sequence-number": L.uint(name + "_seq", 65535) if symbolic else 5}}}


def config_data(template, subset, mpi_custom, seq_var, ver_var):
    data = {"artifacts_folder": "artifacts/", "sysbuild": {"config": {}}}
    present = []
    if template == "root":
        for flag, key in zip(subset, ("radio", "application", "top")):
            if flag:
                data[key] = {"name": NAMES[key]}
                present.append(key)
        if mpi_custom:
            n = CUSTOM_NAMES[int(mpi_custom) - 1]
            data["sysbuild"]["config"].update(
                SB_CONFIG_SUIT_MPI_ROOT_VENDOR_NAME=n["root"][0], SB_CONFIG_SUIT_MPI_ROOT_CLASS_NAME=n["root"][1], SB_CONFIG_SUIT_MPI_APP_LOCAL_1_VENDOR_NAME=n["application"][0],
                SB_CONFIG_SUIT_MPI_APP_LOCAL_1_CLASS_NAME=n["application"][1], SB_CONFIG_SUIT_MPI_RAD_LOCAL_1_VENDOR_NAME=n["radio"][0], SB_CONFIG_SUIT_MPI_RAD_LOCAL_1_CLASS_NAME=n["radio"][1],
            )
        own = "APP_ROOT"
    else:
        for key in ("secdom", "sysctrl"):
            data[key] = {"name": NAMES[key]}
            present.append(key)
        own = "NORDIC_TOP"
    if seq_var == "own":
        data[own + "_SEQ_NUM"] = 77
    elif seq_var == "default":
        data["DEFAULT_SEQ_NUM"] = 16909056
    if ver_var == "own":
        data[own + "_VERSION"] = "1.2.3"
    elif ver_var == "default":
        data["DEFAULT_VERSION"] = "0.1.0-rc.2"
    return data, present


# custom MPI name sets: 1 = plain names, every role its own vendor/class; 2 = names with characters that markup/escaping layers
# treat specially (they are ordinary characters for a UUID name)
CUSTOM_NAMES = [
    {"radio": ("radio.example", "acme_rad"), "application": ("acme.example", "acme_app"), "root": ("root.example", "acme_root")},
    {"radio": ("r&d.example", "acme<rad>"), "application": ("a&b.example", "app>1"), "root": ("x<y.example", "root&co")},
]


def expected_classes(template, mpi_custom):
    if template == "top":
        return None
    if mpi_custom:
        return dict(CUSTOM_NAMES[int(mpi_custom) - 1], top=("nordicsemi.com", "nRF54H20_nordic_top"))
    return {"radio": ("nordicsemi.com", "nRF54H20_sample_rad"), "application": ("nordicsemi.com", "nRF54H20_sample_app"), "top": ("nordicsemi.com", "nRF54H20_nordic_top"), "root": ("nordicsemi.com", "nRF54H20_sample_root")}


def walk_indices(seq, ncomp):
    """Every component index used by a command refers to a declared component."""
    ok = True
    for cmd in seq:
        for name, arg in cmd.items():
            if name == "suit-directive-set-component-index":
                if isinstance(arg, bool):
                    pass
                elif isinstance(arg, int):
                    ok = ok and 0 <= arg < ncomp
                elif isinstance(arg, list):
                    ok = ok and all(isinstance(x, int) and 0 <= x < ncomp for x in arg)  # an empty selection is vacuously fine
                else:
                    ok = False
            elif name == "suit-directive-try-each":
                for s in arg:
                    ok = ok and walk_indices(s, ncomp)
            elif name == "suit-directive-run-sequence":
                ok = ok and walk_indices(arg, ncomp)
    return ok


def check_wiring(desc, out_bytes, present, classes, loads, dumps, hash_of_manifest, class_token):
    """Abstract interpretation of the rendered description and the created envelope.  Works with the model or the real cbor2."""
    env = desc["SUIT_Envelope_Tagged"]
    man = env["suit-manifest"]
    comps = man["suit-common"]["suit-components"]
    ncomp = len(comps)
    ok = True
    for key in ("suit-validate", "suit-load", "suit-invoke", "suit-install", "suit-candidate-verification", "suit-payload-fetch", "suit-dependency-resolution", "suit_uninstall"):
        if key in man and isinstance(man[key], list):
            ok = ok and walk_indices(man[key], ncomp)
    if "suit-shared-sequence" in man["suit-common"]:
        ok = ok and walk_indices(man["suit-common"]["suit-shared-sequence"], ncomp)
    for k in man["suit-common"].get("suit-dependencies", {}):
        i = int(k)
        ok = ok and 0 <= i < ncomp and comps[i][0] in ("CAND_MFST", "INSTLD_MFST")
    # output side
    v = loads(out_bytes)
    members = dict(v.value.items()) if hasattr(v.value, "items") else {}
    manifest = loads(members[3])
    # fetched '#name' URIs have an integrated member; digests paired with them equal the hash of that member's wrapped manifest
    for code in (16, 18, 20):
        if code not in manifest or not isinstance(manifest[code], bytes):
            continue
        seq = loads(manifest[code])
        uri = None
        dg = None
        for i in range(0, len(seq), 2):
            c, arg = seq[i], seq[i + 1]
            if c in (19, 20):
                for pk, pv in arg.items():
                    if pk == 21:
                        uri = pv
                        dg = None
                    elif pk == 3:
                        dg = loads(pv)
                for pk, pv in arg.items():
                    if pk == 3:
                        dg = loads(pv)
            elif c == 21 and isinstance(uri, str) and uri.startswith("#"):
                ok = ok and uri in members
                if ok and dg is not None:
                    ok = ok and dg[1] == hash_of_manifest(members[uri])
    ok = ok and sorted(k for k in members if isinstance(k, str)) == sorted("#" + NAMES[p] for p in present)
    # installed-manifest class ids
    if classes is not None:
        common = loads(manifest[3])
        clist = common[2]
        idx = 1
        for p in ("radio", "application", "top"):
            if p in present:
                ok = ok and clist[idx][1] == class_token(*classes[p])
                idx += 1
        cid = manifest[5]
        ok = ok and cid[1] == class_token(*classes["root"])
    return ok


def h_template(template="root", subset=None, mode="flags", history=False, exclude=()):
    from vlib import suitenv

    e = suitenv.setup()
    import yaml
    from crosshair.tracers import NoTracing
    from props.c02 import SymLeaves
    from suit_generator.input_output import InputOutputMixin

    import ncs.build as B
    from vlib import cbormodel, chx
    from vlib.repoenv import REPO

    tpath = os.path.join(REPO, "ncs", "root_with_nordic_top_envelope.yaml.jinja2" if template == "root" else "nordic_top_envelope.yaml.jinja2")

    def harness():
        suitenv.reset(e)
        L = SymLeaves(chx)
        if mode == "flags":
            mpi_custom = chx.pick("mpi_custom", [0, 1, 2]) if (template == "root" and not history) else 0
            seq_var, ver_var = "none", "none"
            with NoTracing():
                chx._reg("seq_var", seq_var)
                chx._reg("ver_var", ver_var)
        else:
            mpi_custom = 0
            seq_var = chx.pick("seq_var", ["own", "default", "none"])
            ver_var = chx.pick("ver_var", ["own", "default", "none"])
        data, present = config_data(template, subset, mpi_custom, seq_var, ver_var)
        with NoTracing():
            text = B.render_template(tpath, data)
            desc = yaml.safe_load(text)
        import copy

        if history:
            # an earlier build in the same process, with other children at the same paths
            for p in present:
                e.fs.add("artifacts/" + NAMES[p] + ".suit", InputOutputMixin.prepare_suit_data(_child_desc(L, p + "_old", False)))
            with NoTracing():
                desc_old = copy.deepcopy(desc)
            InputOutputMixin.prepare_suit_data(desc_old)
        for p in present:
            e.fs.add("artifacts/" + NAMES[p] + ".suit", InputOutputMixin.prepare_suit_data(_child_desc(L, p, p in _sym_children(present, mode))))

        with NoTracing():
            desc_in = copy.deepcopy(desc)
        out = InputOutputMixin.prepare_suit_data(desc_in)

        def hash_of_manifest(member_bytes):
            return e.stubs.stub_hasher("cose-alg-sha-256", e.refenc.manifest_bstr_of(member_bytes))

        def class_token(vendor, klass):
            return e.proxy.uuid5(e.proxy.uuid5(real_uuid.NAMESPACE_DNS, vendor), klass).bytes

        ok = check_wiring(desc, out, present, expected_classes(template, mpi_custom), cbormodel.plain_loads, cbormodel.plain_dumps, hash_of_manifest, class_token)
        # sequence number / version variables are honoured
        v = cbormodel.plain_loads(out)
        manifest = cbormodel.plain_loads(dict(v.value.items())[3])
        ok = ok and manifest[2] == {"own": 77, "default": 16909056, "none": 1}[seq_var]
        ok = ok and ((6 in manifest) == (ver_var != "none"))
        return chx.conclude(ok, template=template, subset=subset)

    return harness


def replay(obligation, params, cex):
    import copy
    import hashlib

    import cbor2
    import yaml
    from props.c02 import CexLeaves
    from suit_generator.input_output import InputOutputMixin

    import ncs.build as B
    from vlib.repoenv import REPO

    template, subset = params["template"], params["subset"]
    L = CexLeaves(cex)
    tpath = os.path.join(REPO, "ncs", "root_with_nordic_top_envelope.yaml.jinja2" if template == "root" else "nordic_top_envelope.yaml.jinja2")
    d = tempfile.mkdtemp(prefix="verif-c19r-")
    cwd = os.getcwd()
    try:
        os.chdir(d)
        os.makedirs("artifacts")
        mpi_custom = int(cex.get("mpi_custom", 0) or 0)
        seq_var, ver_var = cex.get("seq_var", "none"), cex.get("ver_var", "none")
        data, present = config_data(template, subset, mpi_custom, seq_var, ver_var)
        try:
            desc = yaml.safe_load(B.render_template(tpath, data))
            if params.get("history"):
                for p in present:
                    open("artifacts/" + NAMES[p] + ".suit", "wb").write(InputOutputMixin.prepare_suit_data(_child_desc(L, p + "_old", False)))
                InputOutputMixin.prepare_suit_data(copy.deepcopy(desc))
            for p in present:
                child = _child_desc(L, p, p in _sym_children(present, params.get("mode", "flags")))
                open("artifacts/" + NAMES[p] + ".suit", "wb").write(InputOutputMixin.prepare_suit_data(child))
            out = InputOutputMixin.prepare_suit_data(copy.deepcopy(desc))
        except Exception as ex:  # noqa
            return dict(reproduced=True, detail=f"rendering/creating raises {type(ex).__name__}: {ex}"[:500])

        def hash_of_manifest(member_bytes):
            return hashlib.sha256(cbor2.dumps(cbor2.loads(member_bytes).value[3])).digest()

        def class_token(vendor, klass):
            return real_uuid.uuid5(real_uuid.uuid5(real_uuid.NAMESPACE_DNS, vendor), klass).bytes

        try:
            ok = check_wiring(desc, out, present, expected_classes(template, mpi_custom), cbor2.loads, cbor2.dumps, hash_of_manifest, class_token)
            manifest = cbor2.loads(cbor2.loads(out).value[3])
            ok = ok and manifest[2] == {"own": 77, "default": 16909056, "none": 1}[seq_var] and ((6 in manifest) == (ver_var != "none"))
        except Exception as ex:  # noqa
            return dict(reproduced=True, detail=f"wiring check raises {type(ex).__name__}: {ex}")
        return dict(reproduced=not ok, detail="wiring clauses violated" if not ok else "wiring consistent")
    finally:
        os.chdir(cwd)
        import shutil

        shutil.rmtree(d, ignore_errors=True)
