"""C18 - output depends only on the inputs (no process-level state, in-place mutation harmless, sign/encrypt deterministic
up to the signature / IV / ciphertext).

What a solver can decide here, and how (DESIGN.md, C18):
  frame_*        frame condition: a structural snapshot (vlib/statesnap.py) of ALL mutable module-, class- and function-level
                 state of the repository's modules is identical before and after one operation, on every path of that
                 operation over symbolic inputs.  With the operations being functions of (arguments, that state, the stubbed
                 environment), an unchanged state gives order- and history-independence inside one interpreter for histories of
                 any length (one inductive step).  The operations are the symbolic harnesses of the other properties (create:
                 C02 grammar areas; parse: C03 round trips, C17 malformed input; storage: C07; extraction: C11; templates: C19;
                 sign: C09; encrypt: C06/C14) plus two small ones here (MPI generate, cache partition).
  twice_*        in-place mutation and first-use effects: with the cbstr() wrapper classes put back into their import-time
                 state, create(copy of d) == create(d) == create(d again, as mutated by the previous run), symbolic leaves.
  sign_* / encrypt_*   two runs with the same KMS/entropy outputs are byte-identical; a run with independent outputs differs
                 only in the signature field, resp. IV / ciphertext / tag.
  hash_seed_*    the string-hash seed as a solver variable: sets built by the repository's modules iterate in a solver-chosen order.
  cwd_independence   the working directory as a solver variable: relative names may or may not exist there.
  signer_object_history   one Signer object used twice vs a fresh one.
Outside (stated in evidence): fresh-process comparison beyond the frame condition, JSON == YAML loaders.
"""
from __future__ import annotations

import importlib

from vlib.ob import Ob

PROPERTY = "C18"

META = {
    "files": [
        "suit_generator/suit/types/common.py",
        "suit_generator/suit/manifest.py",
        "suit_generator/suit/security.py",
        "suit_generator/suit/envelope.py",
        "suit_generator/input_output.py",
        "suit_generator/cmd_sign.py",
        "suit_generator/cmd_mpi.py",
        "suit_generator/cmd_cache_create.py",
        "suit_generator/cmd_image.py",
        "suit_generator/cmd_payload_extract.py",
        "ncs/sign_script.py",
        "ncs/encrypt_script.py",
        "ncs/basic_kms.py",
    ],
    "functions": [
        "every from_obj/to_cbor/from_cbor/to_obj reached by create and parse of the C02/C03/C17 grammar areas",
        "suit_generator.suit.security.SuitDigestExt.from_obj (in-place digest fill)",
        "suit_generator.suit.types.common.cbstr (wrapper classes patched on first instantiation)",
        "suit_generator.cmd_sign.main / ncs.sign_script.Signer.sign_envelope",
        "ncs.encrypt_script.Encryptor.encrypt_and_generate",
        "suit_generator.cmd_mpi.MpiGenerator.generate",
        "suit_generator.cmd_cache_create.CachePartition.add_cache_slot/close_and_save_cache",
        "suit_generator.cmd_image.ImageCreator.create_files_for_boot (via C07 harnesses)",
        "suit_generator.cmd_payload_extract.main (via C11 harnesses)",
    ],
    "bounds": "one operation per run from an arbitrary point of a history (state == import-time state is the inductive invariant); inputs as "
    "bounded in the wrapped harness of the named property (see that property's evidence for the leaf ranges); snapshot covers module "
    "globals, class dictionaries, function defaults/closures of all modules loaded from the repository (about 1300 entries)",
    "stubs": ["as in the wrapped harnesses (file system, hashes, uuid, KMS, AES/entropy, hex writer, cbor model)"],
    "outside": [
        "comparison with a fresh interpreter beyond the frame condition, JSON vs YAML loaders (C parsers): not reachable by symbolic execution of the code",
        "hash seed: decided for sets/frozensets built by name in the repository's modules (solver-chosen iteration order, vlib/ndset.py); set displays/comprehensions and dict-ordering effects of third-party code are not modelled",
        "working directory: decided for names looked up through open/os.stat/os.path/pathlib/os.open (vlib/vfs.py, cwd_free); other doors (os.scandir, glob) fall through to the host directory",
        "state held by third-party libraries (cbor2, cryptography, intelhex, yaml, jinja2)",
        "E2-decided operations (MPI merge, cache from envelope hierarchy, storage record layout) are not wrapped; MPI generate and the cache partition writer have their own small E1 harnesses here",
        "texts of error messages (they name the cbstr wrapper as 'Cbstr' before its first instantiation and by the wrapped class afterwards)",
    ],
    "assumptions": ["operations are deterministic functions of (arguments, snapshot-covered state, stubbed environment): no clock, no randomness outside os.urandom/uuid4 (stubbed/logged)"],
}

# (property module, obligation) pairs whose harness is re-run under the frame check.  quick: cheap representatives of each operation.
FRAME_QUICK = [
    ("c02", "area_header"),
    ("c02", "area_manifest_a_members0"),
    ("c02", "area_envelope_a_severed0"),
    ("c02", "area_directives"),
    ("c02", "area_parameters_a"),
    ("c02", "area_textmap_entries2"),
    ("c02", "area_nesting"),
    ("c03", "roundtrip_parameters_a"),
    ("c03", "roundtrip_manifest_a_members0"),
    ("c03", "roundtrip_common_members1"),
    ("c17", "map1_00_SuitEnvelopeTagged"),
    ("c17", "list2_02_cbstr_SuitManifest"),
    ("c05", "digest_from_file"),
    ("c05", "payload_by_path"),
    ("c11", "single_extract"),
    ("c11", "depth2"),
    ("c09", "recursive_root_only"),
    ("c09", "already_signed_actions"),
    ("c06", "generate_info"),
    ("c14", "history_same_object_k2"),
    ("c07", "one_envelope_nrf54h20_severed0"),
    ("c19", "root_subset0_100"),
]
FRAME_THOROUGH = FRAME_QUICK + [
    ("c06", "encrypt_and_generate_cli_k0"),
    ("c02", "area_authentication_blocks1"),
    ("c02", "area_manifest_b"),
    ("c02", "area_common_members0"),
    ("c02", "area_envelope_a_severed1"),
    ("c02", "area_envelope_a_severed2"),
    ("c02", "area_encrypt_calg0"),
    ("c02", "area_parameters_c"),
    ("c03", "hierarchy_expansion_json"),
    ("c03", "roundtrip_textmap_entries2"),
    ("c05", "digest_and_size_of_envelope"),
    ("c05", "dependency_nesting"),
    ("c11", "depth3"),
    ("c11", "cli_from_envelope"),
    ("c09", "recursive_one_dep_root0"),
    ("c14", "history_fresh_objects_k3"),
    ("c07", "one_envelope_nrf9280_severed1"),
    ("c07", "two_envelopes_nrf54h20_part0"),
    ("c07", "rejections"),
    ("c19", "root_variables"),
    ("c19", "top_template"),
    ("c01", None),
]

TWICE_QUICK = [("envelope_a", {"severed": 0}), ("envelope_a", {"severed": 1}), ("manifest_a", {"members": 0}), ("nesting", None), ("header", None), ("textmap", {"entries": 2})]
TWICE_THOROUGH = TWICE_QUICK + [("envelope_a", {"severed": 2}), ("envelope_a", {"severed": 3}), ("envelope_b", None), ("authentication", None), ("manifest_b", None), ("common", {"members": 1})]


def _inner(prop, ob):
    mod = importlib.import_module("props." + prop)
    for tier in ("thorough", "quick"):
        for o in mod.obligations(tier):
            if o.name == ob and o.engine == "E1":
                return mod, o
    raise KeyError(f"props.{prop} has no E1 obligation {ob!r}")


def obligations(tier):
    obs = []
    table = FRAME_QUICK if tier == "quick" else FRAME_THOROUGH
    for prop, ob in table:
        if ob is None:
            # all E1 obligations of that property
            mod = importlib.import_module("props." + prop)
            names = [o.name for o in mod.obligations("quick") if o.engine == "E1"][:6]
        else:
            names = [ob]
        for n in names:
            _, o = _inner(prop, n)
            obs.append(Ob(f"frame_{prop}_{n}", "E1", "h_frame", {"prop": prop, "ob": n}, max(600, o.budget * 1.3), f"frame condition over the symbolic harness {prop.upper()}/{n} ({o.bound[:110]})", per_path=o.per_path, weight=o.weight * 1.3))
    for area, fix in TWICE_QUICK if tier == "quick" else TWICE_THOROUGH:
        suffix = "" if not fix else "_" + "_".join(f"{k}{v}" for k, v in fix.items())
        obs.append(Ob(f"twice_{area}{suffix}", "E1", "h_twice", {"area": area, "fix": fix}, 1500, f"grammar area {area}{suffix}: pristine-first-use create == create == create on the description mutated by the previous run", weight=150))
    obs += [
        Ob("sign_determinism", "E1", "h_sign_det", {}, 600, "single-level sign x 5 algorithms, key id < 2^32: same KMS output -> identical bytes; independent KMS output -> differs only in the signature field; to-be-signed bytes identical", weight=40),
    ]
    for area, fix in SEED_AREAS if tier == "quick" else SEED_AREAS + SEED_AREAS_DEEP:
        suffix = "_" + "_".join(f"{k}{v}" for k, v in fix.items())
        obs.append(Ob(f"hash_seed_{area}{suffix}", "E1", "h_hash_seed", {"area": area, "fix": fix}, 1200, f"string-hash seed as a solver variable: every set/frozenset built by the repository's modules iterates in a solver-chosen order; create of grammar area {area}{suffix} still equals the reference bytes", weight=120))
    obs += [
        Ob("cwd_independence", "E1", "h_cwd", {}, 900, "working directory as a solver variable: any relative name the code looks up may or may not exist there, with arbitrary content; an envelope whose inputs are inline or given by absolute path is created identically (payload inline hex / by absolute path, digest and size from absolute paths, raw digest)", weight=80),
        Ob("signer_object_history", "E1", "h_signer_history", {}, 900, "ONE Signer object used twice: first call on a signed or unsigned envelope with any already-signed action (solver-chosen; may refuse), second call on an unsigned envelope - the second result equals what a fresh Signer returns for it (no state carried between calls); 5 algorithms", weight=60),
        Ob("encrypt_determinism", "E1", "h_encrypt_det", {}, 600, "encrypt-and-generate three times (same object twice, fresh object): digest, size, AAD, key identical; info differs only in the IV; content is the AEAD output", weight=40),
        Ob("mpi_generate", "E1", "h_mpi", {}, 600, "MPI generate twice + frame: 2 x 2 policies x 4 signature policies, 2 vendor x 2 class names (uuid5 as congruent tokens), 3 sizes, address < 2^32 symbolic", weight=30),
        Ob("cache_partition", "E1", "h_cache", {}, 600, "two CachePartition objects filled with the same (uri, payload) pairs, frame between them: identical bytes; payload sizes and erase-block size from representative sets, payload bytes symbolic, URIs from {a, file://fw.bin} x {a, b} (duplicate URI refused both times)", weight=30),
    ]
    return obs


# ------------------------------------------------------------------------------------------------ frame condition


def _root():
    from vlib.repoenv import REPO

    return REPO


def h_frame(prop, ob, exclude=()):
    mod, o = _inner(prop, ob)
    kw = dict(o.params)
    import inspect
    import json
    import os

    if "exclude" in inspect.signature(getattr(mod, o.fn)).parameters:
        # inputs of the wrapped property's recorded known findings are assumed away exactly as that property's own re-run does
        # (the wrapped harness would otherwise stop at the finding's path instead of exhausting the operation)
        with open(os.path.join(os.path.dirname(os.path.dirname(os.path.abspath(__file__))), "known_findings.json")) as fh:
            kw["exclude"] = tuple(f["id"] for f in json.load(fh)["findings"] if f["property"] == prop.upper() and f.get("status") == "known")
    inner = getattr(mod, o.fn)(**kw)
    from crosshair.tracers import NoTracing

    from vlib import chx, statesnap

    statesnap.preimport(_root())
    root = _root()

    def harness():
        with NoTracing():
            s0 = statesnap.take(root)
        try:
            inner()
        except Exception:  # the operation (or the wrapped oracle) raising is not this property's business
            pass
        with NoTracing():
            chx.STATE["failed"] = None
            s1 = statesnap.take(root)
            d = statesnap.diff(s0, s1)
        if d:
            return chx.fail("process-level state changed by the operation: " + "; ".join(d)[:600])
        return chx.conclude(True)

    return harness


# ------------------------------------------------------------------------------------------------ in-place mutation / first use


def h_twice(area, fix=None, exclude=()):
    from props import c02
    from vlib import suitenv

    e = suitenv.setup()
    from crosshair.tracers import NoTracing

    from vlib import chx, statesnap

    chx.FIXED.clear()
    chx.FIXED.update(fix or {})
    statesnap.preimport(_root())
    wrappers = statesnap.cbstr_wrappers(_root())

    def harness():
        suitenv.reset(e)
        L = c02.SymLeaves(chx)
        clsname, fn, d = c02.build(area, L, exclude)
        with NoTracing():
            statesnap.make_pristine(wrappers)
        first = c02.real_encode(e, clsname, c02._clone(d))  # first use in this "interpreter", on a private copy
        second = c02.real_encode(e, clsname, d)  # fills digests into d
        third = c02.real_encode(e, clsname, d)  # d as left behind by the previous run
        return chx.conclude(first == second and second == third, area=area)

    return harness


# ------------------------------------------------------------------------------------------------ sign / encrypt


def h_sign_det(exclude=()):
    from props import c04, c09

    SS, CS, stubs = c09._env()
    from props.c04 import ALGS
    from suit_generator.suit_sign_script_base import SignatureAlreadyPresentActions, SuitSignAlgorithms

    from vlib import cbormodel, chx
    from vlib.cbormodel import CBORTag

    fs = stubs.FS()
    CS.open = fs.open

    def harness():
        cbormodel.reset()
        kid = chx.sym_int("key_id", 0, 2**32 - 1)
        ai = chx.sym_sel("alg", len(ALGS))
        alg_member = ALGS[0][0]
        for i, a in enumerate(ALGS):
            if ai == i:
                alg_member = a[0]
        sig_a = chx.sym_bytes("sig_a", 6)
        sig_b = chx.sym_bytes("sig_b", 6)
        digest = chx.sym_bytes("digest", 4)
        manifest = chx.sym_bytes("manifest", 3)
        payload = chx.sym_bytes("payload", 2)
        digest_bstr = cbormodel.plain_dumps([-16, digest])
        in_bytes = cbormodel.dumps(CBORTag(107, {2: cbormodel.plain_dumps([digest_bstr]), 3: manifest, "#p": payload}))
        outs, tbs = [], []
        for sig in (sig_a, sig_a, sig_b):
            stubs.KMSRecorder.reset()
            stubs.KMSRecorder.SIGNATURES = [sig]
            fs.names, fs.contents, fs.writes = [], [], []
            fs.add("in.suit", in_bytes)
            CS.main(sign_subcommand="single-level", input_envelope="in.suit", output_envelope="out.suit", key_name="kn", key_id=kid, alg=SuitSignAlgorithms[alg_member], context=None, sign_script=c04.SIGN_SCRIPT(), kms_script=c04.KMS_SCRIPT(), already_signed_action=SignatureAlreadyPresentActions.ERROR)
            outs.append(fs.written("out.suit"))
            tbs.append([x for x in stubs.KMSRecorder.LOG if x[0] == "sign"])
        ok = outs[0] is not None and outs[0] == outs[1] and len(tbs[0]) == 1 and tbs[0] == tbs[1] and tbs[1] == tbs[2]
        if ok:
            a = dict(cbormodel.plain_loads(outs[0]).value.items())
            b = dict(cbormodel.plain_loads(outs[2]).value.items())
            ok = list(a.keys()) == list(b.keys()) and a[3] == b[3] and a["#p"] == b["#p"]
            wa, wb = cbormodel.plain_loads(a[2]), cbormodel.plain_loads(b[2])
            ok = ok and len(wa) == 2 and len(wb) == 2 and wa[0] == wb[0]
            if ok:
                sa, sb = cbormodel.plain_loads(wa[1]), cbormodel.plain_loads(wb[1])
                ok = sa.tag == 18 and sb.tag == 18 and list(sa.value[:3]) == list(sb.value[:3]) and sa.value[3] == sig_a and sb.value[3] == sig_b
        return chx.conclude(ok, key_id=kid, alg=ai)

    return harness


SEED_AREAS = [("authentication", {"blocks": 2, "block_names": 0}), ("encrypt", {"calg": 0, "nested": 1, "rec_protected": 1}), ("textmap", {"entries": 0}), ("envelope_b", {"pn": 0, "pa_len": 0, "with_dep": 1})]
SEED_AREAS_DEEP = [("manifest_a", {"members": 1}), ("common", {"members": 1}), ("envelope_a", {"severed": 1}), ("header", {}), ("parameters_c", {}), ("nesting", {})]


def h_hash_seed(area, fix=None, exclude=()):
    from props import c02
    from vlib import suitenv

    e = suitenv.setup()
    import suit_generator.input_output as IO

    from vlib import chx, ndset

    chx.FIXED.clear()
    chx.FIXED.update(fix or {})
    ndset.install([e.CM, e.MF, e.SE, e.EN, e.PL, IO], chx.pick)

    def harness():
        suitenv.reset(e)
        ndset.reset()
        L = c02.SymLeaves(chx)
        clsname, fn, d = c02.build(area, L, ("F10",))
        exp = c02.ref_encode(e.refenc, fn, c02._clone(d), e.ctx)
        out = c02.real_encode(e, clsname, c02._clone(d))
        return chx.conclude(out == exp)

    return harness


def h_cwd(exclude=()):
    from props import c02
    from vlib import suitenv

    e = suitenv.setup()
    from suit_generator.input_output import InputOutputMixin

    from crosshair.tracers import NoTracing

    from vlib import chx, vfs

    counter = [0]

    def cwd_hook(fs, name):
        # a relative name the code asks for: the (arbitrary) working directory may hold such a file, with arbitrary content
        counter[0] += 1
        if chx.sym_bool("cwd_has_%d" % counter[0]):
            fs.add(name, b"\x07" + chx.sym_bytes("cwd_content%d_" % counter[0], 2))
            with NoTracing():
                chx._reg("cwd_name_%d" % counter[0], str(name))
            return True
        return False

    # warm-up outside the analysis: lazy imports done by the first creation would otherwise ask the file system (and so the
    # solver) questions that later paths do not ask
    suitenv.reset(e)
    e.fs.add("/abs/fw.bin", b"\x01\x02\x03")
    InputOutputMixin.prepare_suit_data(build_cwd(c02.CexLeaves({})))

    def harness():
        suitenv.reset(e)
        counter[0] = 0
        vfs.install(e.fs, cwd_free=cwd_hook)
        try:
            L = c02.SymLeaves(chx)
            d = build_cwd(L)
            e.fs.add("/abs/fw.bin", b"\x01" + chx.sym_bytes("fw", 2))
            exp = e.refenc.envelope(c02._clone(d), e.ctx)
            out = InputOutputMixin.prepare_suit_data(c02._clone(d))
        finally:
            vfs.install(e.fs)
        return chx.conclude(out == exp)

    return harness


CWD_HEX = ["cafe", "00", "ABCDEF", "0123456789abcdef"]


def build_cwd(L):
    """Inputs inline or by absolute path only."""
    params = {"suit-parameter-image-digest": {"suit-digest-algorithm-id": "cose-alg-sha-256", "suit-digest-bytes": {"file": "/abs/fw.bin"}}, "suit-parameter-image-size": {"file": "/abs/fw.bin"}, "suit-parameter-uri": L.sel("uri", ["#fw", "fw.bin", "cafe"])}
    man = {"suit-manifest-version": 1, "suit-manifest-sequence-number": L.uint("seq", 23), "suit-common": {"suit-components": [["M", 2]], "suit-shared-sequence": [{"suit-directive-override-parameters": params}]}}
    env = {"suit-authentication-wrapper": {"SuitDigest": {"suit-digest-algorithm-id": "cose-alg-sha-256", "suit-digest-bytes": L.sel("supplied", CWD_HEX)}}, "suit-manifest": man, "suit-integrated-payloads": {"#inline": L.sel("inline_hex", CWD_HEX), "#abs": "/abs/fw.bin"}}
    return {"SUIT_Envelope_Tagged": env}


def h_signer_history(exclude=()):
    from props import c04, c09
    from props.c04 import ALGS

    SS, CS, stubs = c09._env()
    from suit_generator.suit_sign_script_base import SignatureAlreadyPresentActions, SuitSignAlgorithms

    from vlib import cbormodel, chx, refenc
    from vlib.cbormodel import CBORTag

    ACTIONS = [SignatureAlreadyPresentActions.ERROR, SignatureAlreadyPresentActions.SKIP, SignatureAlreadyPresentActions.REMOVE_OLD]

    def harness():
        cbormodel.reset()
        stubs.KMSRecorder.reset()
        kid = chx.sym_int("key_id", 0, 23)
        alg_member = chx.pick("alg", [a[0] for a in ALGS])
        act1 = chx.pick("first_action", [0, 1, 2])
        first_signed = chx.sym_bool("first_input_signed")
        sig1, sig2, sig_old = chx.sym_bytes("sig1_", 4), chx.sym_bytes("sig2_", 4), chx.sym_bytes("sigold_", 4)
        d1, d2 = chx.sym_bytes("digest1_", 3), chx.sym_bytes("digest2_", 3)
        db1, db2 = cbormodel.plain_dumps([-16, d1]), cbormodel.plain_dumps([-16, d2])
        old_block, _ = c09._block(cbormodel, refenc, -8, 5, sig_old)
        env1 = CBORTag(107, {2: cbormodel.plain_dumps([db1, old_block] if first_signed else [db1]), 3: chx.sym_bytes("man1_", 2)})
        man2 = chx.sym_bytes("man2_", 2)

        def env2():
            return cbormodel.loads(cbormodel.dumps(CBORTag(107, {2: cbormodel.plain_dumps([db2]), 3: man2})))

        signer = SS.Signer()
        stubs.KMSRecorder.SIGNATURES = [sig1, sig1]
        try:
            signer.sign_envelope(cbormodel.loads(cbormodel.dumps(env1)), "kn", kid, SuitSignAlgorithms[alg_member], None, c04.KMS_SCRIPT(), ACTIONS[act1])
        except Exception:
            pass
        stubs.KMSRecorder.reset()
        stubs.KMSRecorder.SIGNATURES = [sig2]
        again = signer.sign_envelope(env2(), "kn", kid, SuitSignAlgorithms[alg_member], None, c04.KMS_SCRIPT(), SignatureAlreadyPresentActions.ERROR)
        log_again = [x for x in stubs.KMSRecorder.LOG if x[0] == "sign"]
        stubs.KMSRecorder.reset()
        stubs.KMSRecorder.SIGNATURES = [sig2]
        fresh = SS.Signer().sign_envelope(env2(), "kn", kid, SuitSignAlgorithms[alg_member], None, c04.KMS_SCRIPT(), SignatureAlreadyPresentActions.ERROR)
        log_fresh = [x for x in stubs.KMSRecorder.LOG if x[0] == "sign"]
        ok = cbormodel.dumps(again) == cbormodel.dumps(fresh) and len(log_again) == 1 and len(log_fresh) == 1 and log_again[0][1:4] == log_fresh[0][1:4]
        # and the fresh result is a signed envelope (one block appended): guards against both being equally wrong
        w = cbormodel.plain_loads(dict(cbormodel.plain_loads(cbormodel.dumps(fresh)).value.items())[2])
        ok = ok and len(w) == 2
        return chx.conclude(ok)

    return harness


def h_encrypt_det(exclude=()):
    from props import c06

    BK, ES, CE, SE, fs, stubs = c06._env()
    from suit_generator.suit_encrypt_script_base import SuitDigestAlgorithms, SuitKWAlgorithms

    from vlib import cbormodel, chx

    def harness():
        cbormodel.reset()
        stubs.HashLog.reset()
        c06.AesLog.CALLS, c06.AesLog.URANDOM = [], []
        c06.reset_environment()
        fs.names, fs.contents, fs.writes = [], [], []
        key = chx.sym_bytes("key", 32)
        fs.add("/keys/fwkey.bin", key)
        n = chx.pick("pt_len", [0, 1, 3])
        pt = chx.sym_bytes("plaintext", n)
        kid = chx.sym_int("key_id", 0, 2**32 - 1)
        enc = ES.Encryptor()
        runs = []
        for who in (enc, enc, ES.Encryptor()):
            runs.append(who.encrypt_and_generate(pt, "fwkey", kid, None, SuitDigestAlgorithms.SHA_256, SuitKWAlgorithms.DIRECT, "k.py"))
        ok = len(c06.AesLog.CALLS) == 3 and len(c06.AesLog.URANDOM) == 3
        if ok:
            ref = None
            for i in range(3):
                ct, tag, info, digest, plen = runs[i]
                k_used, nonce, data, aad, out = c06.AesLog.CALLS[i]
                iv = c06.AesLog.URANDOM[i][1]
                outer = cbormodel.plain_loads(cbormodel.plain_loads(info))
                body = list(outer.value)
                hdr = dict(body[1].items())
                ok = ok and outer.tag == 96 and list(hdr.keys()) == [5] and hdr[5] == iv and nonce == iv and tag + ct == out[n:] + out[:n]
                rest = (body[0], body[2], body[3], digest, plen, k_used, data, aad)
                if ref is None:
                    ref = rest
                else:
                    ok = ok and rest == ref
        return chx.conclude(ok, key_id=kid, pt_len=n)

    return harness


# ------------------------------------------------------------------------------------------------ MPI / cache

SIG_POLICIES = [None, "update", "update-and-boot", "sometimes"]


def h_mpi(exclude=()):
    import uuid as real_uuid

    from vlib import repoenv, stubs

    repoenv.prepare_symbolic()
    import suit_generator.cmd_mpi as MPI
    from crosshair.tracers import NoTracing

    from vlib import chx, statesnap

    proxy = stubs.UuidProxy(real_uuid)
    MPI.uuid = proxy
    MPI.IntelHex = stubs.HexRecorder
    statesnap.preimport(_root())
    root = _root()

    def harness():
        stubs.UuidProxy.LOG = []
        vendor = chx.pick("vendor", ["nordicsemi.com", "v"])
        klass = chx.pick("class", ["nRF54H20_sample_root", "c"])
        down = bool(chx.sym_bool("downgrade_prevention"))
        indep = bool(chx.sym_bool("independent_updates"))
        pol = chx.pick("signature_verification", SIG_POLICIES)
        address = chx.sym_int("address", 0, 2**32 - 1)
        size = chx.pick("size", [48, 49, 4096])
        results = []
        with NoTracing():
            s0 = statesnap.take(root)
        for i in range(2):
            stubs.HexRecorder.LOG = []
            try:
                MPI.MpiGenerator.generate("out%d.hex" % i, vendor, klass, address, size, down, indep, pol)
                results.append(("ok", [x[2] for x in stubs.HexRecorder.LOG if x[0] == "write"]))
            except Exception as ex:  # noqa
                results.append(("raise", type(ex).__name__))
        with NoTracing():
            s1 = statesnap.take(root)
            d = statesnap.diff(s0, s1)
        if d:
            return chx.fail("process-level state changed by MPI generate: " + "; ".join(d)[:600])
        a, b = results
        ok = a[0] == b[0] and a[1] == b[1] and (a[0] == "raise" or len(a[1]) == 1)
        return chx.conclude(ok)

    return harness


CACHE_SIZES = [0, 5, 22]
CACHE_EB = [1, 8, 16]


def h_cache(exclude=()):
    from vlib import repoenv, stubs

    repoenv.prepare_symbolic()
    import suit_generator.cmd_cache_create as CC
    from crosshair.tracers import NoTracing

    from vlib import cbormodel, chx, statesnap

    fs = stubs.FS()
    CC.open = fs.open
    statesnap.preimport(_root())
    root = _root()

    def harness():
        cbormodel.reset()
        fs.names, fs.contents, fs.writes = [], [], []
        eb = chx.pick("eb_size", CACHE_EB)
        nslots = chx.pick("slots", [1, 2])
        uris = [chx.pick("uri0_", ["a", "file://fw.bin"]), chx.pick("uri1_", ["a", "b"])]
        datas = []
        for i in range(2):
            n = chx.pick(f"size{i}", CACHE_SIZES)
            datas.append(chx.sym_bytes(f"data{i}_", n))
        results = []
        snaps = []
        for run in range(2):
            with NoTracing():
                snaps.append(statesnap.take(root))
            try:
                c = CC.CachePartition(eb)
                for i in range(nslots):
                    c.add_cache_slot(uris[i], datas[i])
                c.close_and_save_cache("cache%d.bin" % run)
                results.append(("ok", fs.written("cache%d.bin" % run)))
            except Exception as ex:  # noqa
                results.append(("raise", type(ex).__name__))
        with NoTracing():
            snaps.append(statesnap.take(root))
            d = statesnap.diff(snaps[0], snaps[1]) or statesnap.diff(snaps[1], snaps[2])
        if d:
            return chx.fail("process-level state changed by the cache writer: " + "; ".join(d)[:600])
        return chx.conclude(results[0] == results[1])

    return harness


# ------------------------------------------------------------------------------------------------ replay (unpatched code, real libraries)


def replay(obligation, params, cex):
    from vlib import statesnap

    root = _root()
    if obligation.startswith("frame_"):
        mod, o = _inner(params["prop"], params["ob"])
        statesnap.preimport(root)
        s0 = statesnap.take(root)
        try:
            inner = mod.replay(o.name, dict(o.params), cex)
        except Exception as ex:  # noqa
            inner = {"detail": f"wrapped replay raised {type(ex).__name__}: {ex}"}
        s1 = statesnap.take(root)
        d = statesnap.diff(s0, s1)
        if d:
            return dict(reproduced=True, detail=("state changed by one operation: " + "; ".join(d))[:700])
        return dict(reproduced=False, detail="snapshot identical before/after the concrete operation (" + str(inner.get("detail", ""))[:120] + ")")
    if obligation.startswith("twice_"):
        return _replay_twice(params, cex)
    if obligation == "sign_determinism":
        return _replay_sign(cex)
    if obligation == "signer_object_history":
        return _replay_signer_history(cex)
    if obligation == "cwd_independence":
        return _replay_cwd(cex)
    if obligation.startswith("hash_seed_"):
        return _replay_hash_seed(params, cex)
    if obligation == "encrypt_determinism":
        return _replay_encrypt(cex)
    if obligation == "mpi_generate":
        return _replay_mpi(cex)
    if obligation == "cache_partition":
        return _replay_cache(cex)
    return dict(reproduced=None, detail="no replay for " + obligation)


def _replay_twice(params, cex):
    import suit_generator.suit.envelope as EN
    import suit_generator.suit.manifest as MF
    import suit_generator.suit.security as SE
    from props import c02

    from vlib import statesnap

    class E:
        pass

    e = E()
    e.MF, e.SE, e.EN = MF, SE, EN
    L = c02.CexLeaves(cex)
    clsname, fn, d = c02.build(params["area"], L, params.get("exclude", ()))
    statesnap.preimport(_root())
    statesnap.make_pristine(statesnap.cbstr_wrappers(_root()))
    outs = []
    for arg in (c02._clone(d), d, d):
        try:
            outs.append(c02.real_encode(e, clsname, arg))
        except Exception as ex:  # noqa
            outs.append(f"{type(ex).__name__}: {ex}"[:200])
    if outs[0] == outs[1] == outs[2]:
        return dict(reproduced=False, detail="three runs agree")
    which = "first use vs later use" if outs[0] != outs[1] else "re-using the description mutated by the previous run"
    return dict(reproduced=True, detail=f"{which}: {_show(outs[0])} / {_show(outs[1])} / {_show(outs[2])} for {d!r}"[:700])


def _show(x):
    return x.hex()[:120] if isinstance(x, (bytes, bytearray)) else repr(x)[:120]


def _replay_sign(cex):
    import os
    import shutil
    import tempfile

    import cbor2
    from props import c04
    from props.c04 import ALGS

    import suit_generator.cmd_sign as CS
    from suit_generator.suit_sign_script_base import SignatureAlreadyPresentActions, SuitSignAlgorithms
    from vlib import stubs

    kid = cex.get("key_id", 1)
    alg_member = ALGS[cex.get("alg", 0) % len(ALGS)][0]
    digest, manifest, payload = cex.get("digest", b"\x01" * 4), cex.get("manifest", b"\x02" * 3), cex.get("payload", b"\x03" * 2)
    sig_a, sig_b = cex.get("sig_a", b"A" * 6), cex.get("sig_b", b"B" * 6)
    if sig_a == sig_b:
        sig_b = bytes(x ^ 0xFF for x in sig_a)
    d = tempfile.mkdtemp(prefix="verif-c18r-")
    try:
        inp = os.path.join(d, "in.suit")
        open(inp, "wb").write(cbor2.dumps(cbor2.CBORTag(107, {2: cbor2.dumps([cbor2.dumps([-16, digest])]), 3: manifest, "#p": payload})))
        outs, tbs = [], []
        for i, sig in enumerate((sig_a, sig_a, sig_b)):
            stubs.KMSRecorder.reset()
            stubs.KMSRecorder.SIGNATURES = [sig]
            out = os.path.join(d, f"out{i}.suit")
            CS.main(sign_subcommand="single-level", input_envelope=inp, output_envelope=out, key_name="kn", key_id=kid, alg=SuitSignAlgorithms[alg_member], context=None, sign_script=c04.SIGN_SCRIPT(), kms_script=c04.KMS_SCRIPT(), already_signed_action=SignatureAlreadyPresentActions.ERROR)
            outs.append(open(out, "rb").read())
            tbs.append([tuple(x) for x in stubs.KMSRecorder.LOG if x[0] == "sign"])
        if outs[0] != outs[1]:
            return dict(reproduced=True, detail=f"same input, same KMS output, different envelopes: {outs[0].hex()[:200]} vs {outs[1].hex()[:200]}")
        if not (tbs[0] == tbs[1] == tbs[2]):
            return dict(reproduced=True, detail="the bytes handed to the KMS differ between runs on the same input")
        if outs[0].replace(sig_a, b"") != outs[2].replace(sig_b, b""):
            return dict(reproduced=True, detail=f"runs with different signatures differ outside the signature field: {outs[0].hex()[:200]} vs {outs[2].hex()[:200]}")
        return dict(reproduced=False, detail="sign runs agree up to the signature")
    except Exception as ex:  # noqa
        return dict(reproduced=True, detail=f"signing a well-formed envelope raises {type(ex).__name__}: {ex}"[:400])
    finally:
        shutil.rmtree(d, ignore_errors=True)


def _replay_cwd(cex):
    """Real files: the same creation from an empty working directory and from one holding the files the solver placed there."""
    import os
    import shutil
    import tempfile

    from props import c02
    from suit_generator.input_output import InputOutputMixin

    L = c02.CexLeaves(cex)
    top = tempfile.mkdtemp(prefix="verif-c18cwd-")
    cwd = os.getcwd()
    try:
        fw = os.path.join(top, "abs", "fw.bin")
        os.makedirs(os.path.dirname(fw))
        open(fw, "wb").write(b"\x01" + (cex.get("fw") if isinstance(cex.get("fw"), bytes) else b"\x02\x03"))
        outs = []
        for populated in (False, True):
            wd = os.path.join(top, "wd%d" % populated)
            os.makedirs(wd)
            if populated:
                names = [v for k, v in cex.items() if k.startswith("cwd_name_") and isinstance(v, str)] or ["cafe", "00", "ABCDEF", "0123456789abcdef", "fw.bin", "#fw"]
                for n in names:
                    if n and not n.startswith("/") and ".." not in n:
                        p = os.path.join(wd, n)
                        os.makedirs(os.path.dirname(p), exist_ok=True)
                        open(p, "wb").write(b"\x07\xee\xee")
            os.chdir(wd)
            d = build_cwd(L)
            txt = repr(d).replace("/abs/fw.bin", fw)
            d = eval(txt)  # noqa: S307 - plain literal built above
            try:
                outs.append(InputOutputMixin.prepare_suit_data(d))
            except Exception as ex:  # noqa
                outs.append(f"raises {type(ex).__name__}: {ex}")
        if outs[0] != outs[1]:
            return dict(reproduced=True, detail=f"inputs inline / by absolute path, yet the result depends on the working directory: empty directory -> {str(outs[0].hex() if isinstance(outs[0], bytes) else outs[0])[:120]}, directory holding {names} -> {str(outs[1].hex() if isinstance(outs[1], bytes) else outs[1])[:120]}")
        return dict(reproduced=False, detail="same bytes from both working directories")
    finally:
        os.chdir(cwd)
        shutil.rmtree(top, ignore_errors=True)


def _replay_hash_seed(params, cex):
    """Fresh interpreters with different PYTHONHASHSEED values run the real encoder on the counterexample's description."""
    import json
    import os
    import subprocess
    import sys

    from vlib import chx

    here = os.path.dirname(os.path.dirname(os.path.abspath(__file__)))
    blob = json.dumps({k: chx._jsonable(v) for k, v in cex.items() if not k.startswith("set_order")})
    outs = {}
    for seed in ("0", "1", "2", "3", "7", "11", "42", "123", "999", "2024", "31337", "65535"):
        env = dict(os.environ, PYTHONHASHSEED=seed)
        p = subprocess.run([sys.executable, "-m", "vlib.seedrun", params["area"], json.dumps(params.get("fix") or {}), blob], cwd=here, env=env, capture_output=True, text=True, timeout=300)
        line = [ln for ln in p.stdout.splitlines() if ln.startswith("HEX ")]
        outs[seed] = line[0][4:] if line else "error: " + (p.stderr or p.stdout)[-300:]
    distinct = sorted(set(outs.values()))
    if len(distinct) > 1:
        return dict(reproduced=True, detail=f"the same description encodes differently under different PYTHONHASHSEED values: {len(distinct)} distinct outputs over {len(outs)} seeds, e.g. {distinct[0][:100]} vs {distinct[1][:100]}")
    return dict(reproduced=False, detail="identical bytes under 12 hash seeds")


def _replay_signer_history(cex):
    """Real ncs/sign_script.py Signer (real cbor2), recording KMS: one object used twice vs a fresh object."""
    import cbor2
    from props import c04
    from props.c04 import ALGS

    import ncs.sign_script as SS
    from suit_generator.suit_sign_script_base import SignatureAlreadyPresentActions, SuitSignAlgorithms
    from vlib import stubs

    ACTIONS = [SignatureAlreadyPresentActions.ERROR, SignatureAlreadyPresentActions.SKIP, SignatureAlreadyPresentActions.REMOVE_OLD]
    alg_member = cex.get("alg", ALGS[0][0])
    if alg_member not in [a[0] for a in ALGS]:
        alg_member = ALGS[0][0]
    kid = cex.get("key_id", 1)
    act1 = cex.get("first_action", 1)
    first_signed = bool(cex.get("first_input_signed", True))
    old_block = cbor2.dumps(cbor2.CBORTag(18, [cbor2.dumps({1: -8, 4: cbor2.dumps(5)}), {}, None, b"OLD!"]))
    db1, db2 = cbor2.dumps([-16, b"\x01\x02\x03"]), cbor2.dumps([-16, b"\x04\x05\x06"])

    def env1():
        return {2: cbor2.dumps([db1, old_block] if first_signed else [db1]), 3: b"m1"}

    def env2():
        return cbor2.CBORTag(107, {2: cbor2.dumps([db2]), 3: b"m2"})

    try:
        signer = SS.Signer()
        stubs.KMSRecorder.reset()
        stubs.KMSRecorder.SIGNATURES = [b"SIG1", b"SIG1"]
        try:
            signer.sign_envelope(cbor2.CBORTag(107, env1()), "kn", kid, SuitSignAlgorithms[alg_member], None, c04.KMS_SCRIPT(), ACTIONS[act1 % 3])
        except Exception:  # noqa
            pass
        stubs.KMSRecorder.reset()
        stubs.KMSRecorder.SIGNATURES = [b"SIG2"]
        again = cbor2.dumps(signer.sign_envelope(env2(), "kn", kid, SuitSignAlgorithms[alg_member], None, c04.KMS_SCRIPT(), SignatureAlreadyPresentActions.ERROR))
        stubs.KMSRecorder.reset()
        stubs.KMSRecorder.SIGNATURES = [b"SIG2"]
        fresh = cbor2.dumps(SS.Signer().sign_envelope(env2(), "kn", kid, SuitSignAlgorithms[alg_member], None, c04.KMS_SCRIPT(), SignatureAlreadyPresentActions.ERROR))
    except Exception as ex:  # noqa
        return dict(reproduced=True, detail=f"signing a well-formed unsigned envelope raises {type(ex).__name__}: {ex}"[:400])
    if again != fresh:
        return dict(reproduced=True, detail=f"a Signer that first handled a{' signed' if first_signed else 'n unsigned'} envelope with action {ACTIONS[act1 % 3].name} returns {again.hex()[:160]} for the next unsigned envelope; a fresh Signer returns {fresh.hex()[:160]}")
    if len(cbor2.loads(cbor2.loads(fresh).value[2])) != 2:
        return dict(reproduced=True, detail="signing an unsigned envelope does not append exactly one block")
    return dict(reproduced=False, detail="second use of the object equals first use of a fresh object")


def _replay_encrypt(cex):
    import os
    import shutil
    import tempfile

    import cbor2

    import ncs.basic_kms as BK
    import ncs.encrypt_script as ES
    from suit_generator.suit_encrypt_script_base import SuitDigestAlgorithms, SuitKWAlgorithms

    n = cex.get("pt_len", 3)
    pt = (cex.get("plaintext") or b"")[:n].ljust(n, b"\x05")
    key = (cex.get("key") or b"").ljust(32, b"\x07")[:32]
    kid = cex.get("key_id", 1)
    d = tempfile.mkdtemp(prefix="verif-c18r-")
    try:
        open(os.path.join(d, "fwkey.bin"), "wb").write(key)
        kms_script = os.path.join(_root(), "ncs", "basic_kms.py")
        ctx = '{"keys_directory": "%s"}' % d
        enc = ES.Encryptor()
        runs = []
        for who in (enc, enc, ES.Encryptor()):
            runs.append(who.encrypt_and_generate(pt, "fwkey", kid, ctx, SuitDigestAlgorithms.SHA_256, SuitKWAlgorithms.DIRECT, kms_script))
        from cryptography.hazmat.primitives.ciphers.aead import AESGCM

        ref = None
        for ct, tag, info, digest, plen in runs:
            outer = cbor2.loads(cbor2.loads(info))
            body = outer.value
            iv = body[1].get(5)
            if not (outer.tag == 96 and list(body[1].keys()) == [5] and isinstance(iv, bytes)):
                return dict(reproduced=True, detail=f"encryption info has an unexpected unprotected header {body[1]!r}")
            try:
                from vlib import refenc

                aad = bytes(cbor2.dumps(["Encrypt", body[0], b""]))
                if AESGCM(key).decrypt(iv, ct + tag, aad) != pt:
                    return dict(reproduced=True, detail="content does not decrypt to the plaintext")
            except Exception as ex:  # noqa
                return dict(reproduced=True, detail=f"content does not decrypt under the published IV: {type(ex).__name__}")
            rest = (body[0], body[2], body[3], digest, plen)
            if ref is None:
                ref = rest
            elif rest != ref:
                return dict(reproduced=True, detail=f"runs on the same input differ outside IV/ciphertext: {ref!r} vs {rest!r}"[:600])
        return dict(reproduced=False, detail="encrypt runs agree up to IV/ciphertext/tag")
    except Exception as ex:  # noqa
        return dict(reproduced=True, detail=f"encrypting raises {type(ex).__name__}: {ex}"[:400])
    finally:
        shutil.rmtree(d, ignore_errors=True)


def _replay_mpi(cex):
    import os
    import shutil
    import tempfile

    import suit_generator.cmd_mpi as MPI

    from vlib import statesnap

    root = _root()
    statesnap.preimport(root)
    d = tempfile.mkdtemp(prefix="verif-c18r-")
    try:
        args = (cex.get("vendor", "v"), cex.get("class", "c"), cex.get("address", 0x1000), cex.get("size", 48), bool(cex.get("downgrade_prevention", False)), bool(cex.get("independent_updates", False)), cex.get("signature_verification"))
        res = []
        s0 = statesnap.take(root)
        for i in range(2):
            f = os.path.join(d, f"o{i}.hex")
            try:
                MPI.MpiGenerator.generate(f, *args)
                res.append(open(f).read())
            except Exception as ex:  # noqa
                res.append("raise " + type(ex).__name__)
        s1 = statesnap.take(root)
        df = statesnap.diff(s0, s1)
        if df:
            return dict(reproduced=True, detail=("state changed by MPI generate: " + "; ".join(df))[:600])
        if res[0] != res[1]:
            return dict(reproduced=True, detail=f"two MPI generations of the same input differ: {res[0][:150]!r} vs {res[1][:150]!r}")
        return dict(reproduced=False, detail="MPI generations agree")
    finally:
        shutil.rmtree(d, ignore_errors=True)


def _replay_cache(cex):
    import os
    import shutil
    import tempfile

    import suit_generator.cmd_cache_create as CC

    from vlib import statesnap

    root = _root()
    statesnap.preimport(root)
    d = tempfile.mkdtemp(prefix="verif-c18r-")
    try:
        eb = cex.get("eb_size", 8)
        nslots = cex.get("slots", 2)
        uris = [cex.get("uri0_", "a") or "a", cex.get("uri1_", "b") or "b"]
        datas = []
        for i in range(2):
            n = cex.get(f"size{i}", 1)
            datas.append((cex.get(f"data{i}_") or b"")[:n].ljust(n, b"\x09"))
        res, snaps = [], []
        for run in range(2):
            snaps.append(statesnap.take(root))
            f = os.path.join(d, f"c{run}.bin")
            try:
                c = CC.CachePartition(eb)
                for i in range(nslots):
                    c.add_cache_slot(uris[i], datas[i])
                c.close_and_save_cache(f)
                res.append(open(f, "rb").read())
            except Exception as ex:  # noqa
                res.append("raise " + type(ex).__name__)
        snaps.append(statesnap.take(root))
        df = statesnap.diff(snaps[0], snaps[1]) or statesnap.diff(snaps[1], snaps[2])
        if df:
            return dict(reproduced=True, detail=("state changed by the cache writer: " + "; ".join(df))[:600])
        if res[0] != res[1]:
            return dict(reproduced=True, detail=f"two cache partitions from the same input differ: {_show(res[0])} vs {_show(res[1])}")
        return dict(reproduced=False, detail="cache partitions agree")
    finally:
        shutil.rmtree(d, ignore_errors=True)
