"""C02 - envelope wire format is the SUIT/COSE encoding of the description (translation validation against vlib/refenc.py)."""
from __future__ import annotations

from vlib.ob import Ob

PROPERTY = "C02"

META = {
    "files": ["suit_generator/suit/types/common.py", "suit_generator/suit/types/keys.py", "suit_generator/suit/manifest.py", "suit_generator/suit/security.py", "suit_generator/suit/envelope.py", "suit_generator/suit/payloads.py"],
    "functions": [
        "from_obj / to_cbor of SuitParameters, SuitCommandSequence (conditions, directives, try-each / run-sequence nesting), SuitComponentIdentifier, SuitCommon, SuitManifest, "
        "SuitHeaderMap, CoseSign1Tagged, SuitAuthentication, CoseEncryptTagged / SuitEncryptionInfo (nested recipients), SuitTextMap, SuitEnvelopeTagged (+ digest updaters)",
        "cbstr() wrapper at every `bstr .cbor` site reached by these",
    ],
    "bounds": "descriptions generated per grammar area with symbolic leaves: unsigned ints 0..2^64-1, signed ints in (-2^64, 2^64), text of 0..2 symbolic characters (any code "
    "point), byte strings of 2..16 opaque bytes (via hex provenance), bools, algorithm / key / form selectors solver-chosen, reporting policies a symbolic subset of the 4 bits "
    "(no duplicates) in one position per harness, member order solver-chosen where two members are combined; nesting try-each > run-sequence > try-each (depth 3), recipients depth 2",
    "stubs": [
        "cbor2 -> cbormodel; hashes.Hash -> congruent token stub (the reference computes digests through the same uninterpreted function); uuid5 -> token stub",
        "bytes <-> hex through the provenance pair (a2b_hex(b.hex()) == b)",
    ],
    "outside": [
        "the two forms the property excludes: text map embedded unsevered in the manifest, suit-delegation",
        "leaves longer than the symbolic bounds; YAML/JSON text layer (C parsers)",
        "reporting-policy lists with duplicate bit names (ill-formed description)",
    ],
    "assumptions": ["vlib/refenc.py + vlib/registry.py are the specifications' encoding (written independently of the code; agrees with the code on the three shipped example envelopes)"],
    "level_text": "Translation validation: for every description of a grammar area (symbolic leaves, solver-chosen selectors) the real encoder's bytes are proved equal to the "
    "reference encoder's on every path.",
    "technique": "solver-based translation validation: CrossHair path-exhaustive symbolic execution of the real from_obj/to_cbor against an independent reference encoder",
}

AREAS = ["parameters_a", "parameters_b", "parameters_c", "conditions", "directives", "nesting", "component_id", "common", "manifest_a", "manifest_b", "header", "sign1", "authentication", "encrypt", "textmap", "envelope_a", "envelope_b"]


def obligations(tier):
    obs = [Ob("refenc_examples", "V", "v_examples", {}, 300, "reference encoder vs the real tool on the shipped example envelopes (sanity of the oracle; observation)", twin=False, weight=5)]
    for a in AREAS:
        if a == "authentication":
            for name, fix in AUTH_SPLIT:
                obs.append(Ob(f"area_{a}{name}", "E1", "h_area", {"area": a, "fix": fix}, 1200, f"grammar area {a}, selectors fixed to {fix}: real bytes == reference bytes", weight=100))
            continue
        if a in SPLITS:
            sel, n = SPLITS[a]
            for i in range(n):
                obs.append(Ob(f"area_{a}_{sel}{i}", "E1", "h_area", {"area": a, "fix": {sel: i}}, 1200, f"grammar area {a}, selector {sel} fixed to option {i}: real bytes == reference bytes", weight=100))
        else:
            obs.append(Ob(f"area_{a}", "E1", "h_area", {"area": a}, 1200, f"grammar area {a}: real bytes == reference bytes for all leaves/selectors in the bounds", weight=100))
    if tier == "quick":
        obs = [o for o in obs if o.name not in HEAVY]
    return obs


# more than ~2.5 CPU-minutes each on the unchanged tree (measured): thorough tier only
HEAVY = {"area_manifest_a_members3", "area_common_members3", "area_component_id_part00", "area_textmap_entries0", "area_encrypt_calg1", "area_encrypt_calg2"}


# areas whose path product exceeds the budget are split on their top selector (the union of the parts is the stated bound)
AUTH_SPLIT = [("", {"blocks": 0}), ("_blocks1", {"blocks": 1})] + [(f"_blocks2_names{j}", {"blocks": 2, "block_names": j}) for j in range(4)]
SPLITS = {"textmap": ("entries", 4), "manifest_a": ("members", 5), "envelope_a": ("severed", 4), "encrypt": ("calg", 3), "common": ("members", 4), "component_id": ("part0", 4), "conditions": ("condition", 10)}


# ------------------------------------------------------------------------------------------------ leaf providers


class SymLeaves:
    def __init__(self, chx):
        self.chx = chx

    def uint(self, name, hi=2**64 - 1):
        return self.chx.sym_int(name, 0, hi)

    def int(self, name):
        return self.chx.sym_int(name, -(2**64) + 1, 2**64 - 1)

    def text(self, name, n=2, minlen=0):
        return self.chx.sym_str(name, n, minlen)

    def hex(self, name, n):
        from vlib.suitenv import hexleaf

        return hexleaf(self.chx.sym_bytes(name, n))

    def bool(self, name):
        return bool(self.chx.sym_bool(name))

    def sel(self, name, options):
        return self.chx.pick(name, options)

    def subset(self, name, items):
        out = []
        for i, it in enumerate(items):
            if self.chx.sym_bool(f"{name}_{i}"):
                out.append(it)
        return out


class CexLeaves:
    """Replay: the solver's values."""

    def __init__(self, cex):
        self.c = cex

    def uint(self, name, hi=None):
        return self.c.get(name, 0)

    def int(self, name):
        return self.c.get(name, 0)

    def text(self, name, n=2, minlen=0):
        return self.c.get(name, "a" * minlen)

    def hex(self, name, n):
        v = self.c.get(name)
        return v.hex() if isinstance(v, (bytes, bytearray)) else "00" * n

    def bool(self, name):
        if name not in self.c and name in self.fixed:
            return bool(self.fixed[name])
        return bool(self.c.get(name, False))

    fixed = {}  # selector name -> option index (obligations split on selectors); used when the counterexample does not carry the leaf

    def sel(self, name, options):
        if name not in self.c and name in self.fixed:
            return options[self.fixed[name] % len(options)]
        v = self.c.get(name, options[0])
        for o in options:
            if o == v or (isinstance(o, (list, tuple)) and list(o) == (list(v) if isinstance(v, (list, tuple)) else v)):
                return o
        return options[0]

    def subset(self, name, items):
        return [it for i, it in enumerate(items) if self.c.get(f"{name}_{i}")]


POLICY = ["suit-send-record-success", "suit-send-record-failure", "suit-send-sysinfo-success", "suit-send-sysinfo-failure"]
HASHES = ["cose-alg-sha-256", "cose-alg-shake128", "cose-alg-sha-384", "cose-alg-sha-512", "cose-alg-shake256"]


def digest_desc(L, name):
    return {"suit-digest-algorithm-id": L.sel(name + "_alg", HASHES), "suit-digest-bytes": L.hex(name + "_bytes", 4)}


def uuid_desc(L, name):
    form = L.sel(name + "_form", ["raw", "name", "ns"])
    if form == "raw":
        return {"raw": L.hex(name + "_raw", 16)}
    if form == "name":
        return {"RFC4122_UUID": L.text(name + "_n", 2)}
    return {"RFC4122_UUID": {"namespace": L.text(name + "_ns", 2), "name": L.text(name + "_n", 2)}}


def header_desc(L, name, algs):
    d = {}
    which = L.sel(name + "_members", [("alg",), ("alg", "kid"), ("kid", "alg"), ("alg", "iv"), ("alg", "kid", "iv"), ()])
    for m in which:
        if m == "alg":
            d["suit-cose-algorithm-id"] = L.sel(name + "_alg", algs)
        elif m == "kid":
            d["suit-cose-key-id"] = L.uint(name + "_kid", 2**32 - 1) if L.bool(name + "_kid_int") else L.hex(name + "_kid_b", 2)
        else:
            d["suit-cose-iv"] = L.hex(name + "_iv", 12)
    return d


SIGN_ALGS = ["cose-alg-es-256", "cose-alg-es-384", "cose-alg-es-521", "cose-alg-eddsa", "cose-alg-vs-hash-eddsa"]
ENC_ALGS = ["cose-alg-aes-gcm-128", "cose-alg-aes-gcm-192", "cose-alg-aes-gcm-256", "cose-alg-a128kw", "cose-alg-a192kw", "cose-alg-a256kw", "cose-alg-direct"]


def sign1_desc(L, name, allow_cwt=True):
    d = {"protected": header_desc(L, name + "_p", SIGN_ALGS), "unprotected": {}, "payload": None, "signature": L.hex(name + "_sig", 4)}
    if allow_cwt and L.bool(name + "_cwt"):
        d["payload"] = {"Issuer": L.text(name + "_iss", 2), "Expiration Time": L.int(name + "_exp"), "CW ID": L.hex(name + "_cti", 2)}
    return {"CoseSign1Tagged": d}


def seq_small(L, name):
    return [{"suit-directive-set-component-index": L.uint(name + "_idx", 2**32 - 1)}, {"suit-condition-image-match": []}]


def build(area, L, exclude=()):
    """Returns (class getter name, refenc function name, description)."""
    if area.startswith("parameters"):
        groups = {
            "parameters_a": ["suit-parameter-vendor-identifier", "suit-parameter-class-identifier", "suit-parameter-device-identifier", "suit-parameter-image-digest", "suit-parameter-uri"],
            "parameters_b": ["suit-parameter-component-slot", "suit-parameter-source-component", "suit-parameter-strict-order", "suit-parameter-soft-failure", "suit-parameter-image-size", "suit-parameter-content"],
            "parameters_c": ["suit-parameter-invoke-args", "suit-parameter-version", "suit-parameter-encryption-info"],
        }
        p = L.sel("param", groups[area])
        if p.endswith("identifier"):
            v = uuid_desc(L, "id")
        elif p == "suit-parameter-image-digest":
            v = digest_desc(L, "dg")
        elif p == "suit-parameter-uri":
            v = L.text("uri", 2)
        elif p in ("suit-parameter-component-slot", "suit-parameter-source-component"):
            v = L.uint("n")
        elif p in ("suit-parameter-strict-order", "suit-parameter-soft-failure"):
            v = L.bool("flag")
        elif p == "suit-parameter-image-size":
            v = {"raw": L.uint("size")}
        elif p == "suit-parameter-content":
            v = L.uint("content_int") if L.bool("content_is_int") else L.hex("content", 3)
        elif p == "suit-parameter-invoke-args":
            v = {}
            which = L.sel("ia_members", [("sync",), ("timeout",), ("sync", "timeout"), ("timeout", "sync")])
            for m in which:
                if m == "sync":
                    v["suit-synchronous-invoke"] = L.bool("sync")
                else:
                    v["suit-timeout"] = L.uint("timeout")
        elif p == "suit-parameter-version":
            cmp_ = L.sel("cmp", ["suit-condition-version-comparison-greater", "suit-condition-version-comparison-greater-equal", "suit-condition-version-comparison-equal", "suit-condition-version-comparison-lesser-equal", "suit-condition-version-comparison-lesser"])
            v = {cmp_: [L.int("v0"), L.sel("v1", [0, 255, -1])]}
        else:
            v = {"CoseEncryptTagged": {"protected": {"suit-cose-algorithm-id": "cose-alg-aes-gcm-256"}, "unprotected": {"suit-cose-iv": L.hex("iv", 12)}, "ciphertext": None, "recipients": [{"protected": {}, "unprotected": {"suit-cose-algorithm-id": "cose-alg-direct", "suit-cose-key-id": L.uint("kid", 2**32 - 1)}, "ciphertext": None}]}}
        d = {"suit-parameter-source-component": 7, p: v} if (p != "suit-parameter-source-component" and L.bool("second_first")) else {p: v}
        return "SuitParameters", "parameters", d
    if area == "conditions":
        from vlib import registry as R

        c = L.sel("condition", list(R.CONDITIONS))
        return "SuitCommandSequence", "command_sequence", [{c: L.subset("policy", POLICY)}, {"suit-directive-set-component-index": L.uint("idx")}]
    if area == "directives":
        from vlib import registry as R

        dname = L.sel("directive", list(R.POLICY_DIRECTIVES) + ["suit-directive-set-component-index", "suit-directive-set-parameters", "suit-directive-override-parameters"])
        if dname == "suit-directive-set-component-index":
            form = L.sel("index_form", ["uint", "bool", "list"])
            arg = L.uint("idx") if form == "uint" else (L.bool("idx_b") if form == "bool" else [L.uint("i0", 2**32 - 1), L.sel("i1", [0, 24, 256])])
        elif dname in ("suit-directive-set-parameters", "suit-directive-override-parameters"):
            arg = {"suit-parameter-component-slot": L.uint("slot"), "suit-parameter-uri": L.text("uri", 1)}
        else:
            arg = L.subset("policy", POLICY)
        return "SuitCommandSequence", "command_sequence", [{dname: arg}]
    if area == "nesting":
        inner = [{"suit-directive-try-each": [seq_small(L, "t1"), []]}]
        mid = [{"suit-directive-run-sequence": inner}, {"suit-condition-abort": L.subset("policy", POLICY[:2])}]
        outer = [{"suit-directive-try-each": [mid, [{"suit-directive-fetch": []}]]}, {"suit-directive-set-component-index": L.uint("k")}]
        return "SuitCommandSequence", "command_sequence", outer
    if area == "component_id":
        parts = []
        for i in range(2):
            form = L.sel(f"part{i}", ["text", "int", "uuid", "raw"])
            if form == "text":
                parts.append(L.text(f"t{i}", 2, 1))
            elif form == "int":
                parts.append(L.int(f"i{i}"))
            elif form == "uuid":
                parts.append({"RFC4122_UUID": L.text(f"u{i}", 1)})
            else:
                parts.append({"raw": L.hex(f"r{i}", L.sel(f"rlen{i}", [3, 16]))})
        return "SuitComponentIdentifier", "component_id", parts
    if area == "common":
        d = {}
        which = L.sel("members", [("deps", "comps"), ("comps", "seq"), ("comps",), ("seq", "deps", "comps")])
        for m in which:
            if m == "deps":
                d["suit-dependencies"] = {str(L.sel("dep_index", [0, 1, 23, 24, 300])): {"suit-dependency-prefix": ["M", L.uint("pfx", 2**32 - 1)]}}
            elif m == "comps":
                d["suit-components"] = [["M", L.uint("c0")], ["I", {"raw": L.hex("c1", 16)}]]
            else:
                d["suit-shared-sequence"] = seq_small(L, "ss")
        return "SuitCommon", "common", d
    if area == "manifest_a":
        d = {"suit-manifest-version": 1, "suit-manifest-sequence-number": L.uint("seq")}
        which = L.sel("members", [("uri", "cid"), ("cid", "version"), ("common", "validate"), ("version", "uri", "load"), ("invoke", "uninstall")])
        for m in which:
            if m == "uri":
                d["suit-reference-uri"] = L.sel("uri", ["", "u", "http://\u00e9"])  # symbolic text is covered by parameters_a (uri)
            elif m == "cid":
                d["suit-manifest-component-id"] = ["I", {"RFC4122_UUID": L.text("cls", 1)}]
            elif m == "version":
                d["suit-current-version"] = [L.int("v0"), L.uint("v1", 255)]
            elif m == "common":
                d["suit-common"] = {"suit-components": [["M", L.uint("c0", 2**32 - 1)]]}
            else:
                key = {"validate": "suit-validate", "load": "suit-load", "invoke": "suit-invoke", "uninstall": "suit_uninstall"}[m]
                d[key] = seq_small(L, m)
        return "SuitManifest", "manifest", d
    if area == "manifest_b":
        d = {"suit-manifest-version": 1, "suit-manifest-sequence-number": L.uint("seq", 2**32 - 1)}
        sev = L.sel("severable", ["suit-payload-fetch", "suit-install", "suit-install-legacy", "suit-dependency-resolution", "suit-candidate-verification", "suit-text"])
        as_digest = sev == "suit-text" or L.bool("as_digest")
        d[sev] = digest_desc(L, "sd") if as_digest else seq_small(L, "sq")
        return "SuitManifest", "manifest", d
    if area == "header":
        return "SuitHeaderMap", "header_map", header_desc(L, "h", SIGN_ALGS + ENC_ALGS)
    if area == "sign1":
        return "CoseSign1Tagged", "sign1_tagged", sign1_desc(L, "s", allow_cwt="F10" not in exclude)
    if area == "authentication":
        d = {"SuitDigest": digest_desc(L, "wd")}
        n = L.sel("blocks", [0, 1, 2])
        # the blocks are an array in description order whatever their numbered names are: ascending, descending, two-digit after one-digit
        names = L.sel("block_names", [("1", "2"), ("2", "1"), ("2", "10"), ("9", "10")]) if n == 2 else ("1", "2")
        for i in range(n):
            # full header variety is the business of areas header/sign1; here: order and wrapping of the blocks
            prot = {"suit-cose-algorithm-id": L.sel(f"b{i}_alg", SIGN_ALGS) if i == 0 else "cose-alg-eddsa", "suit-cose-key-id": L.uint(f"b{i}_kid", 2**32 - 1 if i == 0 else 23)}
            d[f"SuitAuthentication{names[i]}"] = {"CoseSign1Tagged": {"protected": prot, "unprotected": {}, "payload": None, "signature": L.hex(f"b{i}_sig", 4)}}
        return "SuitAuthentication", "authentication", d
    if area == "encrypt":
        # full header-map variety is the business of area `header`; here: layering of COSE_Encrypt / recipients (depth 2)
        rec_inner = {"protected": {}, "unprotected": {"suit-cose-algorithm-id": "cose-alg-direct"}, "ciphertext": None}
        rec = {
            "protected": {"suit-cose-algorithm-id": L.sel("rp_alg", ["cose-alg-a128kw", "cose-alg-direct"])} if L.bool("rec_protected") else "",
            "unprotected": {"suit-cose-algorithm-id": L.sel("ru_alg", ["cose-alg-direct", "cose-alg-a256kw", "cose-alg-a192kw"]), "suit-cose-key-id": L.uint("ru_kid", 2**32 - 1)},
            "ciphertext": L.hex("cek", 3) if L.bool("has_cek") else None,
        }
        if L.bool("nested"):
            rec["recipients"] = [rec_inner]
        d = {"CoseEncryptTagged": {"protected": {"suit-cose-algorithm-id": L.sel("calg", ENC_ALGS[:3])}, "unprotected": {"suit-cose-iv": L.hex("iv", 12)}, "ciphertext": None, "recipients": [rec]}}
        return "SuitEncryptionInfo", "encryption_info", d
    if area == "textmap":
        lang = L.sel("lang", ["en", "", "\u00e9", "zh-Hant"])  # a symbolic map key would be realized by the tool's own dict
        entries = {}
        which = L.sel("entries", [("desc", "comp"), ("comp", "upd"), ("json",), ("yaml", "desc")])
        for m in which:
            if m == "comp":
                entries['["M", 2]'] = {L.sel("ckey", ["suit-text-vendor-name", "suit-text-model-name", "suit-text-vendor-domain", "suit-text-model-info", "suit-text-component-description", "suit-text-component-version"]): L.sel("cval", ["", "v", "\u00e9\u20ac"])}
            else:
                key = {"desc": "suit-text-manifest-description", "upd": "suit-text-update-description", "json": "suit-text-manifest-json-source", "yaml": "suit-text-manifest-yaml-source"}[m]
                entries[key] = L.sel(m, ["", "d", "\u00e9\u20ac-long"]) if m != which[0] else L.text(m, 1)
        return "SuitTextMap", "text_map", {lang: entries}
    if area in ("envelope_a", "envelope_b"):
        # composition of the whole envelope (digest refresh, severing, member order, flattening); leaf variety is the other areas' business
        WH = ["cose-alg-sha-256", "cose-alg-shake128"]
        man = {"suit-manifest-version": 1, "suit-manifest-sequence-number": L.uint("seq"), "suit-common": {"suit-components": [["M", 2]]}}
        env = {"suit-authentication-wrapper": {"SuitDigest": {"suit-digest-algorithm-id": L.sel("walg", WH), "suit-digest-bytes": L.hex("supplied", 4)}}}
        if area == "envelope_a":
            sev = L.sel("severed", ["none", "suit-install", "suit-payload-fetch", "suit-text"])
            if sev == "suit-text":
                man["suit-text"] = {"suit-digest-algorithm-id": L.sel("salg", WH[::-1]), "suit-digest-bytes": L.hex("sd", 4)}
            elif sev != "none":
                man[sev] = {"suit-digest-algorithm-id": L.sel("salg", WH[::-1]), "suit-digest-bytes": L.hex("sd", 4)}
            else:
                man["suit-install"] = [{"suit-directive-set-component-index": L.uint("inl_idx", 23)}]
            order = L.bool("manifest_first")
            if order:
                env = {"suit-manifest": man, **env}
            else:
                env["suit-manifest"] = man
            if sev == "suit-text":
                env["suit-text"] = {"en": {"suit-text-manifest-description": L.sel("td", ["", "d"])}}
            elif sev != "none":
                env[sev] = [{"suit-directive-set-component-index": L.uint("sev_idx", 23)}, {"suit-condition-image-match": []}]
        else:
            env["suit-authentication-wrapper"]["SuitAuthentication1"] = {"CoseSign1Tagged": {"protected": {"suit-cose-algorithm-id": "cose-alg-es-256", "suit-cose-key-id": L.uint("b_kid", 23)}, "unprotected": {}, "payload": None, "signature": L.hex("b_sig", 4)}}
            env["suit-manifest"] = man
            # "#a": three opaque bytes or the empty payload (an empty file / empty hex string is a payload like any other)
            env["suit-integrated-payloads"] = {"#a": L.hex("pa", L.sel("pa_len", [3, 0])), "#" + L.sel("pn", ["b", "é", ""]): L.hex("pb", 2)}
            if L.bool("with_dep"):
                env["suit-integrated-dependencies"] = {"dep.suit": {"SUIT_Envelope_Tagged": {"suit-authentication-wrapper": {"SuitDigest": {"suit-digest-algorithm-id": "cose-alg-sha-256", "suit-digest-bytes": "00"}}, "suit-manifest": {"suit-manifest-version": 1, "suit-manifest-sequence-number": L.uint("dseq", 23)}}}}
        return "SuitEnvelopeTagged", "envelope", {"SUIT_Envelope_Tagged": env}
    raise KeyError(area)


def ref_encode(refenc, fn, d, ctx):
    from vlib.cbormodel import CBORTag, plain_dumps

    if fn == "envelope":
        return refenc.envelope(d, ctx)
    if fn == "sign1_tagged":
        return plain_dumps(CBORTag(18, refenc.sign1(d["CoseSign1Tagged"])))
    if fn == "authentication":
        # the class encodes the array (refenc's BW(items) is exactly that encoding); the bstr wrapping is the envelope's cbstr
        return refenc.authentication(d, ctx)
    if fn == "encryption_info":
        from vlib.cbormodel import plain_loads

        return plain_dumps(refenc.encryption_info(d, ctx))
    if fn == "header_map":
        return plain_dumps(refenc.header_map(d))
    if fn == "component_id":
        return plain_dumps(refenc.component_id(d, ctx))
    return plain_dumps(getattr(refenc, fn)(d, ctx))


def get_class(e, name):
    for mod in (e.MF, e.SE, e.EN):
        if hasattr(mod, name):
            return getattr(mod, name)
    raise KeyError(name)


def real_encode(e, clsname, d):
    cls = get_class(e, clsname)
    if clsname == "SuitEnvelopeTagged":
        o = cls.from_obj(d)
        o.update_severable_digests()
        o.update_digest()
        return o.to_cbor()
    return cls.from_obj(d).to_cbor()


def h_area(area, fix=None, exclude=()):
    from vlib import suitenv

    e = suitenv.setup()
    from vlib import chx

    chx.FIXED.clear()
    chx.FIXED.update(fix or {})

    def harness():
        suitenv.reset(e)
        L = SymLeaves(chx)
        clsname, fn, d_ref = build(area, L, exclude)
        # the tool fills digests into the description in place: the real encoder gets its own copy of the same leaves
        import copy

        d_real = copy.deepcopy(d_ref) if False else _clone(d_ref)
        exp = ref_encode(e.refenc, fn, d_ref, e.ctx)
        out = real_encode(e, clsname, d_real)
        return chx.conclude(out == exp, area=area)

    return harness


def _clone(x):
    """Structural copy that keeps leaves (symbolic values, HexStr carriers) shared."""
    if isinstance(x, dict):
        d = {}
        for k, v in x.items():
            d[k] = _clone(v)
        return d
    if isinstance(x, list):
        return [_clone(v) for v in x]
    return x


# ------------------------------------------------------------------------------------------------ validation / replay


def v_examples():
    """Reference encoder == real tool on the shipped examples (concrete sanity of the oracle)."""
    import copy
    import os
    import shutil
    import tempfile

    from vlib import repoenv

    repoenv.prepare_concrete()
    from suit_generator.envelope import SuitEnvelope

    from vlib import refenc, suitenv
    from vlib.repoenv import REPO

    d = tempfile.mkdtemp(prefix="verif-c02-")
    cwd = os.getcwd()
    notes = []
    n = 0
    try:
        for f in ("envelope_1.json", "envelope_1.yaml", "envelope_2_hierarchical.yaml"):
            shutil.copy(os.path.join(REPO, "examples", "input_files", f), d)
        for f in ("file.bin", "rad.bin", "app.bin"):
            open(os.path.join(d, f), "wb").write(bytes((i * 7 + len(f)) & 0xFF for i in range(1024)))
        os.chdir(d)
        ctx = suitenv.concrete_ctx()
        for f in ("envelope_1.json", "envelope_1.yaml", "envelope_2_hierarchical.yaml"):
            n += 1
            try:
                env = SuitEnvelope()
                env.load(f)
                desc = copy.deepcopy(env._envelope)
                real = env.prepare_suit_data(env._envelope)
                mine = refenc.envelope(desc, ctx)
                if real != mine:
                    notes.append((f, "bytes differ"))
            except Exception as ex:  # noqa
                notes.append((f, f"{type(ex).__name__}: {ex}"))
    finally:
        os.chdir(cwd)
        shutil.rmtree(d, ignore_errors=True)
    return dict(verdict="CONFIRMED", paths=n, validated=n - len(notes), observations=notes, message=("observations: " + repr(notes)) if notes else "")


def replay(obligation, params, cex):
    import cbor2

    import suit_generator.suit.envelope as EN
    import suit_generator.suit.manifest as MF
    import suit_generator.suit.security as SE

    from vlib import refenc, suitenv

    area = params["area"]
    L = CexLeaves(cex)
    exclude = params.get("exclude", ())

    class E:
        pass

    e = E()
    e.MF, e.SE, e.EN = MF, SE, EN
    clsname, fn, d = build(area, L, exclude)
    ctx = suitenv.concrete_ctx()
    try:
        exp = ref_encode(refenc, fn, _clone(d), ctx)
    except refenc.RefencError as ex:
        return dict(reproduced=None, detail=f"reference encoder rejects the replay description: {ex}")
    try:
        out = real_encode(e, clsname, _clone(d))
    except Exception as ex:  # noqa
        return dict(reproduced=True, detail=f"create rejects a grammar description: {type(ex).__name__}: {ex}; description {d!r}"[:600])
    if out == exp:
        return dict(reproduced=False, detail="bytes equal")
    fid = None
    if clsname == "CoseSign1Tagged" and d["CoseSign1Tagged"]["payload"] is not None:
        # is the difference exactly the missing bstr wrap of the CWT payload?
        alt = cbor2.dumps(cbor2.CBORTag(18, _to_real(refenc.sign1(d["CoseSign1Tagged"], cwt_payload_as_bstr=False))))
        if out == alt:
            fid = "F10"
    return dict(reproduced=True, detail=f"real {out.hex()[:160]} != reference {exp.hex()[:160]} for {d!r}"[:700], finding=fid)


def _to_real(v):
    import cbor2

    from vlib import cbormodel as M

    if isinstance(v, M.CBORTag):
        return cbor2.CBORTag(v.tag, _to_real(v.value))
    if isinstance(v, (dict, M.PairDict)):
        return {k: _to_real(x) for k, x in v.items()}
    if isinstance(v, (list, tuple)):
        return [_to_real(x) for x in v]
    return v
