"""C08 - symbolic names and registry codes are in one-to-one correspondence (keys.py, manifest.py, security.py, envelope.py)."""
from __future__ import annotations

from vlib.ob import Ob

PROPERTY = "C08"
MAXLEN = 48  # longest registered name has 47 characters

META = {
    "files": ["suit_generator/suit/types/keys.py", "suit_generator/suit/types/common.py", "suit_generator/suit/manifest.py", "suit_generator/suit/security.py", "suit_generator/suit/envelope.py"],
    "functions": [
        "SuitKeyValue.from_obj/to_cbor/from_cbor/to_obj/_get_method_and_name",
        "SuitKeyValueTuple.from_cbor/to_cbor",
        "SuitEnum.__init__/from_cbor/to_cbor",
        "SuitTag.from_cbor/to_obj for SuitEnvelopeTagged, CoseSign1Tagged, CoseEncryptTagged",
        "the _metadata tables of the 16 key-space classes",
    ],
    "bounds": "per key space: key code k any integer in (-2^64, 2^64) (decode direction; for the envelope space the end-to-end decode covers codes -40..40 and the member lookup covers the full range, because the parser realizes unregistered envelope keys in a dict literal), name s any string of 0..48 characters (encode "
    "direction; the longest registered name has 47); values are one valid sample per registered name, representatives of each CBOR "
    "type for unregistered codes; tag numbers any integer in [0, 2^32) except the tags cbor2 converts to Python objects",
    "stubs": ["cbor2 -> vlib/cbormodel (validated differentially on every run); description dict handed over in a non-hashing dict carrier (hashing a symbolic string realizes it)"],
    "outside": ["values other than the per-name samples (C02's business)", "names longer than 48 characters (no registered name is that long; such a name can only be rejected by table lookup)"],
    "assumptions": ["registry tables in vlib/registry.py are the specifications' values (DESIGN.md Appendix A)"],
    "level_text": "Path-exhaustive symbolic execution of the real lookup code with the key code / the name as a symbolic integer / string: "
    "the accepted set and the mapping are shown equal to the verifier's registry for every integer and every string within the bound.",
}

SPACES = ["envelope", "manifest", "common", "dependency-metadata", "conditions", "directives", "parameters", "version-comparison", "invoke-args", "policy-bits", "text-keys", "text-component-keys", "header-keys", "hash-algorithms", "cose-algorithms", "cwt-claims"]


def obligations(tier):
    obs = [
        Ob("cbor_model_validation", "V", "v_cbor", {}, 300, "cbor model vs real cbor2", twin=False, weight=5),
        Ob("registry_injective", "L", "l_injective", {}, 60, "each registry table is injective in both directions (z3 over a symbolic pair of indices)", weight=1),
        Ob("tags", "E1", "h_tags", {}, 300, "tag number any int in [0,2^32): accepted iff 107 / 18 / 96", weight=20),
    ]
    for i in range(4):
        obs.append(Ob(f"encode_nearmiss_{i}", "E1", "h_nearmiss", {"part": i}, 600, "registered names transformed (upper, title, trailing/leading space, underscore, truncated, doubled): all rejected - solver-chosen (space, name, transform)", weight=50))
    obs.append(Ob("lookup_envelope", "E1", "h_lookup", {"space": "envelope"}, 300, "envelope member lookup by code, any int in (-2^64,2^64): registered name, internal pseudo-code, or no match", weight=10))
    for sp in SPACES:
        obs.append(Ob(f"encode_{sp}", "E1", "h_encode", {"space": sp}, 600, f"{sp}: name any string <= {MAXLEN} chars -> accepted iff registered, emits the registered code", weight=40))
        obs.append(Ob(f"decode_{sp}", "E1", "h_decode", {"space": sp}, 600, f"{sp}: code any int in (-2^64,2^64) -> rendered as the registered name or no entry", weight=60))
    return obs


def v_cbor():
    from vlib import cborvalidate
    from vlib.repoenv import REPO

    return cborvalidate.validate(REPO, 0, 600)


def l_injective():
    import time

    import z3

    from vlib import registry as R

    t0 = time.time()
    q = 0
    bad = []
    for sp, table in R.KEY_SPACES.items():
        names = list(table)
        codes = [table[n] for n in names]
        i, j = z3.Ints("i j")
        code = z3.Function("code", z3.IntSort(), z3.IntSort())
        s = z3.Solver()
        for idx, c in enumerate(codes):
            s.add(code(idx) == c)
        s.add(i >= 0, i < len(names), j >= 0, j < len(names), i != j, code(i) == code(j))
        r = s.check()
        q += 1
        if str(r) != "unsat":
            m = s.model()
            bad.append((sp, names[m[i].as_long()], names[m[j].as_long()]))
        if len(set(names)) != len(names):
            bad.append((sp, "duplicate name"))
    return dict(verdict="CONFIRMED" if not bad else "ERROR", paths=q, queries=q, solver_s=round(time.time() - t0, 3), message=("registry not injective: " + repr(bad)) if bad else "", samples=[f"{len(R.KEY_SPACES)} key spaces"])


def _env():
    from vlib import repoenv

    repoenv.prepare_symbolic()
    import suit_generator.suit.types.common as CM

    from vlib import hexprov, samples

    hexprov.install(CM)  # error messages call bytes.hex() on the (symbolic) input

    return samples.classes()


def _ctx():
    from vlib import refenc, stubs

    return refenc.Ctx(stubs.stub_hasher, None, lambda ns, name: b"\x11" * 16)


def h_encode(space, exclude=()):
    classes = _env()
    from vlib import cbormodel, chx, samples
    from vlib import registry as R
    from vlib.cbormodel import PairDict

    cls, kind = classes[space]
    table = R.KEY_SPACES[space]

    def harness():
        cbormodel.reset()
        s = chx.sym_str("name", MAXLEN)
        code = None
        val = 0
        for n, c in table.items():
            if s == n:
                code = c
                if kind != "enum":
                    val = samples.sample(space, n)
                break
        try:
            if kind == "enum":
                out = cls.from_obj(s).to_cbor()
            else:
                out = cls.from_obj(PairDict([(s, val)])).to_cbor()
            rejected = False
        except Exception:
            rejected = True
        if code is None:
            ok = rejected
        elif rejected:
            ok = False
        else:
            v = cbormodel.plain_loads(out)
            if kind == "enum":
                ok = v == code
            elif kind == "kvtuple":
                ok = isinstance(v, list) and len(v) == 2 and v[0] == code
            else:
                ks = list(v.keys())
                ok = len(ks) == 1 and ks[0] == code
        return chx.conclude(ok, name=s)

    return harness


REPS = [0, b"", "", [], {}, None, True, b"\x01\x02"]


TRANSFORMS = [lambda n: n.upper(), lambda n: n.title(), lambda n: n + " ", lambda n: " " + n, lambda n: n.replace("-", "_") if "-" in n else n + "_", lambda n: n[:-1], lambda n: n + n[-1], lambda n: n.swapcase()]


def h_nearmiss(part=0, exclude=()):
    classes = _env()
    from vlib import cbormodel, chx
    from vlib import registry as R
    from vlib.cbormodel import PairDict

    cases = []
    for sp in SPACES[part::4]:
        cls, kind = classes[sp]
        names = set(R.KEY_SPACES[sp])
        for n in R.KEY_SPACES[sp]:
            for t in TRANSFORMS:
                x = t(n)
                if x not in names:
                    cases.append((sp, x))
    cases = sorted(set(cases))

    def harness():
        cbormodel.reset()
        sp, x = chx.pick("case", cases)
        cls, kind = classes[sp]
        try:
            if kind == "enum":
                cls.from_obj(x).to_cbor()
            else:
                cls.from_obj(PairDict([(x, 0)])).to_cbor()
            ok = False
        except Exception:
            ok = True
        return chx.conclude(ok, space=sp, name=x)

    return harness


def h_lookup(space, exclude=()):
    classes = _env()
    from vlib import chx
    from vlib import registry as R

    cls, kind = classes[space]
    table = R.KEY_SPACES[space]

    def harness():
        k = chx.sym_int("code", -(2**64) + 1, 2**64 - 1)
        name = None
        for n, c in table.items():
            if k == c:
                name = n
        r = cls._get_method_and_name(k, "id")
        if name is not None:
            ok = r is not None and r[0].name == name
        elif space == "envelope" and (k == -1 or k == -2):
            ok = r is not None and r[0].name in R.ENVELOPE_FLATTENED
        else:
            ok = r is None
        return chx.conclude(ok, code=k)

    return harness


def h_decode(space, exclude=()):
    classes = _env()
    from vlib import cbormodel, chx, samples
    from vlib import registry as R
    from vlib.cbormodel import PairDict

    cls, kind = classes[space]
    table = R.KEY_SPACES[space]
    ctx = _ctx()
    refs = {n: (None if kind == "enum" else samples.ref_value(space, n, ctx)) for n in table}

    def harness():
        cbormodel.reset()
        if space == "envelope":
            # the parser itself builds `{k: v}` for an unregistered envelope key (a real dict: the symbolic key is
            # realized), so the wide range would be enumerated value by value; the wide range is covered by the
            # lookup obligation `lookup_envelope`, the end-to-end decode by codes -40..40
            k = chx.sym_int("code", -40, 40)
        else:
            k = chx.sym_int("code", -(2**64) + 1, 2**64 - 1)
        if space == "envelope":
            # -1 / -2 are the tool's internal pseudo-codes of the two flattened members (no registered integer, never
            # emitted); a malformed envelope carrying them is parsed as that member - observation, outside the statement
            chx.assume(k != -1 and k != -2)
        name = None
        val = None
        for n, c in table.items():
            if k == c:
                name = n
                val = refs[n]
                break
        if name is None and kind != "enum":
            val = chx.pick("rep", REPS)
        if kind == "enum":
            data = cbormodel.dumps(k)
        elif kind == "kvtuple":
            data = cbormodel.dumps([k, val])
        else:
            data = cbormodel.dumps(PairDict([(k, val)]))
        try:
            obj = cls.from_cbor(data).to_obj()
            rejected = False
        except Exception:
            rejected = True
        if name is None:
            # an unregistered code never yields an entry
            ok = rejected or (kind != "enum" and isinstance(obj, dict) and len(obj) == 0)
        elif rejected:
            ok = False
        elif kind == "enum":
            ok = obj == name
        else:
            ks = list(obj.keys())
            ok = len(ks) == 1 and ks[0] == name
        return chx.conclude(ok, code=k, rep=val if name is None else None)

    return harness


def h_tags(exclude=()):
    _env()
    import suit_generator.suit.envelope as EN
    import suit_generator.suit.security as SE

    from vlib import cbormodel, chx, refenc, samples
    from vlib.cbormodel import CBORTag

    ctx = _ctx()
    env_map = refenc.envelope_map({"suit-authentication-wrapper": samples.AUTH, "suit-manifest": samples.MANIFEST_MIN}, ctx)
    sign1 = refenc.sign1(samples.SIGN1["CoseSign1Tagged"])
    enc = refenc.cose_encrypt(samples.ENCRYPT).value
    cases = [(EN.SuitEnvelopeTagged, 107, "SUIT_Envelope_Tagged", env_map), (SE.CoseSign1Tagged, 18, "CoseSign1Tagged", sign1), (SE.CoseEncryptTagged, 96, "CoseEncryptTagged", enc), (EN.SuitEnvelopeTaggedSimplified, 107, "SUIT_Envelope_Tagged", env_map)]

    def harness():
        cbormodel.reset()
        t = chx.sym_int("tag", 0, 2**32 - 1)
        for st in cbormodel.SEMANTIC_TAGS:
            chx.assume(t != st)
        ci = chx.sym_sel("class", len(cases))
        cls, want, name, content = cases[0]
        for i, c in enumerate(cases):
            if ci == i:
                cls, want, name, content = c
        data = cbormodel.dumps(CBORTag(t, content))
        try:
            obj = cls.from_cbor(data).to_obj()
            ok = t == want and list(obj.keys()) == [name] and cls.from_obj(obj).to_cbor().startswith(cbormodel.plain_dumps(CBORTag(want, 0))[:-1])
        except Exception:
            ok = t != want
        # untagged content is rejected too
        try:
            cls.from_cbor(cbormodel.dumps(content))
            ok = False
        except Exception:
            pass
        return chx.conclude(ok, tag=t, cls=ci)

    return harness


# ------------------------------------------------------------------------------------------------ replay


def replay(obligation, params, cex):
    import cbor2

    from vlib import refenc, samples
    from vlib import registry as R

    classes = samples.classes()
    import hashlib

    ctx = refenc.Ctx(lambda a, d: hashlib.sha256(d).digest(), None, lambda ns, name: b"\x11" * 16)

    def to_real(v):
        from vlib import cbormodel as M

        if isinstance(v, M.CBORTag):
            return cbor2.CBORTag(v.tag, to_real(v.value))
        if isinstance(v, (dict, M.PairDict)):
            return {to_real(k) if not isinstance(k, list) else tuple(k): to_real(x) for k, x in v.items()}
        if isinstance(v, (list, tuple)):
            return type(v)(to_real(x) for x in v)
        return v

    if obligation.startswith("encode_"):
        space = params["space"]
        cls, kind = classes[space]
        table = R.KEY_SPACES[space]
        s = cex.get("name", "")
        try:
            if kind == "enum":
                out = cls.from_obj(s).to_cbor()
            else:
                out = cls.from_obj({s: samples.sample(space, s) if s in table else 0}).to_cbor()
            v = cbor2.loads(out)
            got = v if kind == "enum" else (v[0] if kind == "kvtuple" else list(v.keys())[0])
        except Exception as e:  # noqa
            return dict(reproduced=s in table, detail=f"{s!r} rejected: {type(e).__name__}")
        if s not in table:
            return dict(reproduced=True, detail=f"unregistered name {s!r} accepted, encodes as {got}")
        return dict(reproduced=got != table[s], detail=f"{s!r} -> {got}, registry says {table[s]}")
    if obligation.startswith("decode_"):
        space = params["space"]
        cls, kind = classes[space]
        table = R.KEY_SPACES[space]
        inv = R.inverse(table)
        k = cex.get("code", 0)
        name = inv.get(k)
        val = to_real(samples.ref_value(space, name, ctx)) if (name and kind != "enum") else cex.get("rep")
        data = cbor2.dumps(k if kind == "enum" else ([k, val] if kind == "kvtuple" else {k: val}))
        try:
            obj = cls.from_cbor(data).to_obj()
        except Exception as e:  # noqa
            return dict(reproduced=name is not None, detail=f"code {k} rejected: {type(e).__name__}: {e}")
        if name is None:
            empty = kind != "enum" and isinstance(obj, dict) and len(obj) == 0
            return dict(reproduced=not empty, detail=f"unregistered code {k} rendered as {obj!r}")
        got = obj if kind == "enum" else list(obj.keys())
        return dict(reproduced=(got != name) if kind == "enum" else (got != [name]), detail=f"code {k} -> {got!r}, registry says {name!r}")
    if obligation.startswith("encode_nearmiss"):
        space, s_ = cex.get("space"), cex.get("name")
        cls, kind = classes[space]
        try:
            if kind == "enum":
                cls.from_obj(s_).to_cbor()
            else:
                cls.from_obj({s_: 0}).to_cbor()
            return dict(reproduced=True, detail=f"{space}: unregistered name {s_!r} accepted")
        except Exception as e:  # noqa
            return dict(reproduced=False, detail=f"rejected with {type(e).__name__}")
    if obligation.startswith("lookup_"):
        space = params["space"]
        cls, kind = classes[space]
        table = R.KEY_SPACES[space]
        inv = R.inverse(table)
        k = cex.get("code", 0)
        r = cls._get_method_and_name(k, "id")
        got = r[0].name if r else None
        exp = inv.get(k) or ({-1: "suit-integrated-payloads", -2: "suit-integrated-dependencies"}.get(k) if space == "envelope" else None)
        return dict(reproduced=got != exp, detail=f"code {k} -> {got!r}, expected {exp!r}")
    if obligation == "tags":
        import suit_generator.suit.envelope as EN
        import suit_generator.suit.security as SE

        env_map = to_real(refenc.envelope_map({"suit-authentication-wrapper": samples.AUTH, "suit-manifest": samples.MANIFEST_MIN}, ctx))
        sign1 = to_real(refenc.sign1(samples.SIGN1["CoseSign1Tagged"]))
        enc = to_real(refenc.cose_encrypt(samples.ENCRYPT).value)
        cases = [(EN.SuitEnvelopeTagged, 107, env_map), (SE.CoseSign1Tagged, 18, sign1), (SE.CoseEncryptTagged, 96, enc), (EN.SuitEnvelopeTaggedSimplified, 107, env_map)]
        cls, want, content = cases[cex.get("cls", 0)]
        t = cex.get("tag", 0)
        try:
            cls.from_cbor(cbor2.dumps(cbor2.CBORTag(t, content))).to_obj()
            acc = True
        except Exception:
            acc = False
        try:
            cls.from_cbor(cbor2.dumps(content))
            untagged = True
        except Exception:
            untagged = False
        return dict(reproduced=(acc != (t == want)) or untagged, detail=f"tag {t} accepted={acc}, untagged accepted={untagged}")
    return dict(reproduced=None, detail="unknown obligation")
