"""C06 - encryption artifacts are mutually consistent and decrypt to the firmware (encrypt_script.py, basic_kms.py, cmd_encrypt.py, security.py)."""
from __future__ import annotations

import os
import tempfile

from vlib.ob import Ob

PROPERTY = "C06"

DIGESTS = [("SHA_256", "sha-256", "sha256", 32), ("SHA_384", "sha-384", "sha384", 48), ("SHA_512", "sha-512", "sha512", 64), ("SHAKE128", "shake128", "shake128", 16), ("SHAKE256", "shake256", "shake256", 32)]
PT_LENGTHS = [0, 1, 15, 16, 17, 33]
PT_LENGTHS_DEEP = PT_LENGTHS + [255, 256, 1024]

META = {
    "files": ["ncs/encrypt_script.py", "ncs/basic_kms.py", "suit_generator/cmd_encrypt.py", "suit_generator/suit/security.py"],
    "functions": [
        "ncs.encrypt_script.Encryptor.encrypt_and_generate/generate_kms_artifacts/parse_encrypted_assets/generate_encrypted_payload/generate_suit_encryption_info/generate/_kw_alg_convert",
        "ncs.encrypt_script.DigestGenerator.__init__/generate_digest_size_for_plain_text",
        "ncs.basic_kms.SuitKMS.encrypt/init_kms/parse_context",
        "suit_generator.cmd_encrypt.encrypt_and_generate/generate_info/main",
        "suit_generator.suit.security.SuitEncryptionInfoExt.from_obj + SuitParameters encode/parse of the emitted info",
    ],
    "bounds": "plaintext opaque symbolic bytes of length in {0,1,15,16,17,33} (solver-chosen), key id any int 0..2^32-1, digest algorithm one of 5, key file "
    "32 opaque bytes, entropy output 12 opaque bytes, AES-GCM output opaque (len+16); generate-info: blob opaque of length 28..40",
    "stubs": [
        "AESGCM(key).encrypt(nonce, pt, aad) -> logs its arguments, returns opaque ct||tag of len(pt)+16; os.urandom(n) -> fresh opaque bytes, logs n",
        "hashes.Hash -> congruent token stub with argument log; cbor2 -> cbormodel; open() -> in-memory files",
        "Encryptor.init_kms_backend -> installs the real ncs SuitKMS with keys_directory=/keys (script import by path is bypassed); _import_encryptor -> real Encryptor",
    ],
    "outside": [
        "'decrypts to the plaintext' is reduced to: key/nonce/AAD given to AES-GCM == key file / published IV / reference Enc_structure of the published header, and "
        "emitted file == tag||ct - plus AES-GCM correctness (library); a real encrypt+decrypt runs concretely in real_crypto_validation",
        "multi-kilobyte plaintexts (lengths beyond 33: the code never branches on length)",
    ],
    "assumptions": ["RFC 9052 Enc_structure / COSE_Encrypt layouts as written in vlib/refenc.py"],
}


def obligations(tier):
    obs = [Ob("real_crypto_validation", "V", "v_real", {}, 300, "real key: CLI encrypt, independent AESGCM.decrypt with published IV and reference AAD (wiring; observation)", twin=False, weight=10)]
    deep = tier == "thorough"
    lens = "9 lengths incl. 255/256/1024" if deep else "6 lengths"
    # split on the key-name selector (the union of the parts is the stated bound)
    for k in range(len(KEY_NAMES)):
        obs.append(Ob(f"encrypt_and_generate_k{k}", "E1", "h_encrypt", {"cli": False, "fix": {"key_name": k}, "deep": deep}, 900, f"library, key name {KEY_NAMES[k]!r} with decoy neighbours: {lens} x 5 digests x key id < 2^32", weight=60))
        obs.append(Ob(f"encrypt_and_generate_cli_k{k}", "E1", "h_encrypt", {"cli": True, "fix": {"key_name": k}, "deep": deep}, 900, f"CLI with files, key name {KEY_NAMES[k]!r} with decoy neighbours, output directory fresh or holding longer stale artifacts: four artifacts consistent; {lens} x 5 digests x key id < 2^32", weight=90))
    obs.append(Ob("info_accepted_by_create", "E1", "h_info_roundtrip", {}, 600, "emitted info through suit-parameter-encryption-info {file}: bytes unchanged, parse shows the same structure", weight=40))
    obs.append(Ob("generate_info", "E1", "h_generate_info", {}, 600, "blob of 28..40 opaque bytes: iv|tag|ct split without altering a byte; A256KW requires a CEK", weight=40))
    return obs


# ------------------------------------------------------------------------------------------------ environment


class AesLog:
    CALLS = []
    URANDOM = []


def _env():
    import pathlib

    from vlib import repoenv, stubs

    repoenv.prepare_symbolic()
    import ncs.basic_kms as BK
    import ncs.encrypt_script as ES
    import suit_generator.cmd_encrypt as CE
    import suit_generator.suit.security as SE
    import suit_generator.suit.types.common as CM

    from vlib import chx, hexprov

    hexprov.install(CM)
    fs = stubs.FS()
    from vlib import vfs

    vfs.install(fs)  # library-level file-system entry points (pathlib, os.stat, os.open, ...) are answered by fs as well

    class AESGCMStub:
        def __init__(self, key):
            if len(key) not in (16, 24, 32):
                raise ValueError("AESGCM key must be 128, 192, or 256 bits.")
            self.key = key

        def encrypt(self, nonce, data, aad):
            out = chx.sym_bytes("aesout%d_" % len(AesLog.CALLS), len(data) + 16)
            AesLog.CALLS.append((self.key, nonce, data, aad, out))
            return out

    class SymEnviron:
        """Process environment as an input: every variable the code asks for is absent or set (solver's choice), consistently within a
        path; recorded as leaf env_<NAME> so that a replay sets the same environment."""

        VALUES = [None, "1", "1700000000"]

        def __init__(self):
            self.seen = {}

        def _lookup(self, name):
            if name not in self.seen:
                self.seen[name] = chx.pick("env_" + name, self.VALUES)
            return self.seen[name]

        def get(self, name, default=None):
            v = self._lookup(name)
            return default if v is None else v

        def __getitem__(self, name):
            v = self._lookup(name)
            if v is None:
                raise KeyError(name)
            return v

        def __contains__(self, name):
            return self._lookup(name) is not None

    class OsProxy:
        path = os.path
        environ = SymEnviron()

        @staticmethod
        def getenv(name, default=None):
            return OsProxy.environ.get(name, default)

        @staticmethod
        def urandom(n):
            r = chx.sym_bytes("entropy%d_" % len(AesLog.URANDOM), n)
            AesLog.URANDOM.append((n, r))
            return r

        def __getattr__(self, k):
            return getattr(os, k)

    class SecretsProxy:
        """secrets module: the same entropy log as os.urandom (kind, size, value)."""

        @staticmethod
        def token_bytes(n=32):
            return OsProxy.urandom(n)

        @staticmethod
        def randbits(k):
            r = chx.sym_int("randbits%d" % len(AesLog.URANDOM), 0, 2**k - 1)
            AesLog.URANDOM.append((("bits", k), r))
            return r

        def __getattr__(self, k):
            import secrets as _s

            return getattr(_s, k)

    import secrets as _secrets

    BK.secrets = SecretsProxy()  # seen by `import secrets` inside functions as well: sys.modules entry below
    _secrets.randbits = SecretsProxy.randbits
    _secrets.token_bytes = SecretsProxy.token_bytes
    BK.AESGCM = AESGCMStub
    BK.os = OsProxy()
    BK.open = fs.open
    ES.hashes = stubs.HashesProxy(ES.hashes)
    SE.open = fs.open
    CE.open = fs.open

    # the KMS script loader returns the (stubbed) basic_kms module itself: Encryptor.init_kms_backend, SuitKMS.init_kms and
    # parse_context stay the real code.  With context None the KMS looks for keys next to its own file: that directory is /keys here.
    ES._import_module_from_path = lambda module_name, file_path: BK
    BK.__file__ = "/keys/basic_kms.py"
    CE._import_encryptor = lambda script: ES.Encryptor()
    _ENVSTATE["environ"] = OsProxy.environ
    return BK, ES, CE, SE, fs, stubs


_ENVSTATE = {}


def reset_environment():
    """Start of a path: the environment model forgets the answers of the previous path."""
    env = _ENVSTATE.get("environ")
    if env is not None:
        env.seen = {}


def ref_info(refenc, kid, iv):
    """bstr .cbor COSE_Encrypt_Tagged: AES-GCM-256, IV in the unprotected header, one direct recipient naming the key id."""
    from vlib.cbormodel import CBORTag

    protected = refenc.BW(refenc.M([(1, 3)]))
    rec = [b"", refenc.M([(1, -6), (4, refenc.BW(kid))]), None]
    tagged = CBORTag(96, [protected, refenc.M([(5, iv)]), None, [rec]])
    return refenc.BW(refenc.BW(tagged)), protected


def _pick_len(chx):
    return chx.pick("pt_len", PT_LENGTHS)


def h_encrypt(cli=False, exclude=(), fix=None, deep=False):
    BK, ES, CE, SE, fs, stubs = _env()
    from suit_generator.suit_encrypt_script_base import SuitDigestAlgorithms, SuitKWAlgorithms

    from vlib import cbormodel, chx, refenc

    chx.FIXED.clear()
    chx.FIXED.update(fix or {})
    lengths = PT_LENGTHS_DEEP if deep else PT_LENGTHS

    def harness():
        cbormodel.reset()
        reset_environment()
        stubs.HashLog.reset()
        AesLog.CALLS, AesLog.URANDOM = [], []
        kid = chx.sym_int("key_id", 0, 2**32 - 1)
        n = chx.pick("pt_len", lengths)
        di = chx.sym_sel("digest", len(DIGESTS))
        member, value, cname, size = DIGESTS[0]
        for i, dg in enumerate(DIGESTS):
            if di == i:
                member, value, cname, size = dg
        pt = chx.sym_bytes("plaintext", n)
        key = chx.sym_bytes("key", 32)
        fs.names, fs.contents, fs.writes = [], [], []
        kname = chx.pick("key_name", KEY_NAMES)
        fs.add("/keys/" + kname + ".bin", key)
        # neighbours a wrong name resolution could pick up instead (other suffix handling, missing suffix): distinct contents
        for j, dn in enumerate(decoy_names(kname)):
            fs.add("/keys/" + dn, chx.sym_bytes("decoy%d_" % j, 32))
        stale = False
        if cli:
            fs.add("fw.bin", pt)
            stale = chx.sym_bool("stale_outputs")
            if stale:
                # an earlier run left longer artifacts in the same output directory
                for an, ln_ in STALE:
                    fs.add(os.path.join("out", an), b"\xee" * ln_ if an.endswith(".bin") else "9" * ln_)
            fs.dirs.append("out")
            CE.main(encrypt_subcommand="encrypt-and-generate", encrypt_script="e.py", firmware="fw.bin", key_name=kname, key_id=kid, context=None, hash_alg=value, kw_alg="direct", kms_script="k.py", output_dir="out")
            content = fs.written(os.path.join("out", "encrypted_content.bin"))
            info = fs.written(os.path.join("out", "suit_encryption_info.bin"))
            digest = fs.written(os.path.join("out", "plain_text_digest.bin"))
            size_txt = fs.written(os.path.join("out", "plain_text_size.txt"))
            nwrites = len(fs.writes)
        else:
            ct, tag, info, digest, plen = ES.Encryptor().encrypt_and_generate(pt, kname, kid, None, SuitDigestAlgorithms[member], SuitKWAlgorithms.DIRECT, "k.py")
            content = tag + ct
            size_txt = str(plen)
            nwrites = 4
        ok = len(AesLog.CALLS) == 1 and len(AesLog.URANDOM) == 1 and AesLog.URANDOM[0][0] == 12 and nwrites == 4
        if ok:
            k_used, nonce, data, aad, out = AesLog.CALLS[0]
            iv = AesLog.URANDOM[0][1]
            exp_info, protected = ref_info(refenc, kid, iv)
            hl = stubs.HashLog.ENTRIES
            ok = (
                k_used == key
                and nonce == iv
                and data == pt
                and aad == refenc.enc_structure(protected)
                and content == out[n:] + out[:n]
                and info == exp_info
                and (size_txt.encode() if isinstance(size_txt, str) else size_txt) == str(n).encode()
                and len(hl) == 1
                and hl[0][0] == cname
                and hl[0][1] == size
                and hl[0][2] == pt
                and digest == hl[0][3]
            )
        return chx.conclude(ok, key_id=kid, pt_len=n, digest=di, stale_outputs=stale)

    return harness


# key names: plain, with dashes/digits, with dots (suffix-like parts), ending in the key-file suffix itself, hidden-file style
KEY_NAMES = ["fwkey", "firmware-key-0001", "fw_enc.v2", "k.bin", ".hidden"]
STALE = [("encrypted_content.bin", 200), ("suit_encryption_info.bin", 120), ("plain_text_digest.bin", 80), ("plain_text_size.txt", 12)]


def decoy_names(kname):
    """Files next to `<kname>.bin` that a wrong resolution of the key name would open."""
    out = [kname]
    stem = kname.rsplit(".", 1)[0] if "." in kname[1:] else None
    if stem:
        out.append(stem + ".bin")
        out.append(stem)
    return [n for n in out if n != kname + ".bin"]


def h_info_roundtrip(exclude=()):
    BK, ES, CE, SE, fs, stubs = _env()
    import suit_generator.suit.manifest as MF
    from suit_generator.suit_encrypt_script_base import SuitDigestAlgorithms, SuitKWAlgorithms

    from vlib import cbormodel, chx, refenc

    def harness():
        cbormodel.reset()
        reset_environment()
        stubs.HashLog.reset()
        AesLog.CALLS, AesLog.URANDOM = [], []
        kid = chx.sym_int("key_id", 0, 2**32 - 1)
        pt = chx.sym_bytes("plaintext", 3)
        fs.names, fs.contents, fs.writes = [], [], []
        fs.add("/keys/fwkey.bin", chx.sym_bytes("key", 32))
        ct, tag, info, digest, plen = ES.Encryptor().encrypt_and_generate(pt, "fwkey", kid, None, SuitDigestAlgorithms.SHA_256, SuitKWAlgorithms.DIRECT, "k.py")
        fs.add("info.bin", info)
        iv = AesLog.URANDOM[0][1]
        params = MF.SuitParameters.from_obj({"suit-parameter-encryption-info": {"file": "info.bin"}})
        enc = params.to_cbor()
        exp_info, protected = ref_info(refenc, kid, iv)
        # the parameter value is the bstr carried in the file: {19: <that bstr>}
        ok = enc == cbormodel.plain_dumps(refenc.M([(19, cbormodel.plain_loads(exp_info))]))
        back = MF.SuitParameters.from_cbor(enc).to_obj()
        e = back["suit-parameter-encryption-info"]["CoseEncryptTagged"]
        ok = (
            ok
            and e["protected"] == {"suit-cose-algorithm-id": "cose-alg-aes-gcm-256"}
            and e["unprotected"]["suit-cose-iv"] == iv.hex()
            and e["ciphertext"] is None
            and len(e["recipients"]) == 1
            and e["recipients"][0]["unprotected"] == {"suit-cose-algorithm-id": "cose-alg-direct", "suit-cose-key-id": kid}
            and e["recipients"][0]["ciphertext"] is None
        )
        return chx.conclude(ok, key_id=kid)

    return harness


def h_generate_info(exclude=()):
    BK, ES, CE, SE, fs, stubs = _env()
    from vlib import cbormodel, chx, refenc

    def harness():
        cbormodel.reset()
        AesLog.CALLS, AesLog.URANDOM = [], []
        kid = chx.sym_int("key_id", 0, 2**32 - 1)
        n = chx.pick("blob_len", [28, 29, 40])
        blob = chx.sym_bytes("blob", n)
        kw = chx.pick("kw_alg", ["direct", "aes-kw-256"])
        cek = chx.sym_bytes("cek", 5)
        fs.names, fs.contents, fs.writes = [], [], []
        fs.add("enc.bin", blob)
        fs.add("cek.bin", cek)
        CE.main(encrypt_subcommand="generate-info", encrypt_script="e.py", encrypted_firmware="enc.bin", encrypted_key="cek.bin", key_id=kid, kw_alg=kw, output_dir="o")
        content = fs.written(os.path.join("o", "encrypted_content.bin"))
        info = fs.written(os.path.join("o", "suit_encryption_info.bin"))
        from vlib.cbormodel import CBORTag

        protected = refenc.BW(refenc.M([(1, 3)]))
        rec = [b"", refenc.M([(1, -5 if kw == "aes-kw-256" else -6), (4, refenc.BW(kid))]), cek]
        exp_info = refenc.BW(refenc.BW(CBORTag(96, [protected, refenc.M([(5, blob[:12])]), None, [rec]])))
        ok = content == blob[12:28] + blob[28:] and info == exp_info and len(fs.writes) == 2 and not AesLog.CALLS and not AesLog.URANDOM
        return chx.conclude(ok, key_id=kid, blob_len=n, kw_alg=kw)

    return harness


# ------------------------------------------------------------------------------------------------ concrete oracle / replay


def check_artifacts(outdir, plaintext, key, kid, hash_name):
    """Independent check of the four files.  None if consistent, else text."""
    import hashlib

    import cbor2
    from cryptography.hazmat.primitives.ciphers.aead import AESGCM

    from vlib import refenc

    rd = lambda n: open(os.path.join(outdir, n), "rb").read()  # noqa
    try:
        content, info_b, digest, size_txt = rd("encrypted_content.bin"), rd("suit_encryption_info.bin"), rd("plain_text_digest.bin"), rd("plain_text_size.txt")
    except OSError as e:
        return f"missing artifact: {e}"
    if size_txt != str(len(plaintext)).encode():
        return "plain_text_size.txt does not hold the plaintext length"
    h = hashlib.new({"sha-256": "sha256", "sha-384": "sha384", "sha-512": "sha512", "shake128": "shake_128", "shake256": "shake_256"}[hash_name])
    h.update(plaintext)
    exp_d = h.digest({"shake128": 16, "shake256": 32}[hash_name]) if "shake" in hash_name else h.digest()
    if digest != exp_d:
        return "plain_text_digest.bin is not the digest of the plaintext"
    outer = cbor2.loads(info_b)
    if not isinstance(outer, bytes):
        return "encryption info is not a byte string"
    tagged = cbor2.loads(outer)
    if not isinstance(tagged, cbor2.CBORTag) or tagged.tag != 96 or len(tagged.value) != 4:
        return "encryption info is not a bstr-wrapped tag-96 COSE_Encrypt"
    prot, unprot, ctext, recips = tagged.value
    if cbor2.loads(prot) != {1: 3} or prot != cbor2.dumps({1: 3}):
        return "protected header is not {1: 3} (AES-GCM-256)"
    if set(unprot.keys()) != {5} or len(unprot[5]) != 12 or ctext is not None:
        return "unprotected header / ciphertext"
    if len(recips) != 1 or recips[0][0] != b"" or dict(recips[0][1]) != {1: -6, 4: cbor2.dumps(kid)} or recips[0][2] is not None:
        return "recipient is not the direct recipient naming the key id"
    try:
        pt = AESGCM(key).decrypt(unprot[5], content[16:] + content[:16], refenc.enc_structure(prot))
    except Exception as e:  # noqa
        return f"AES-GCM decryption with the published IV / Enc_structure fails: {type(e).__name__}"
    if pt != plaintext:
        return "decrypts to something else"
    return None


def _real_run(d, plaintext, key, kid, hash_name, kname="fwkey", stale=False):
    import suit_generator.cmd_encrypt as CE
    from vlib.repoenv import REPO

    kd = os.path.join(d, "keys")
    od = os.path.join(d, "out")
    os.makedirs(kd, exist_ok=True)
    os.makedirs(od, exist_ok=True)
    open(os.path.join(kd, kname + ".bin"), "wb").write(key)
    for j, dn in enumerate(decoy_names(kname)):
        open(os.path.join(kd, dn), "wb").write(bytes((i * 11 + 40 + j) & 0xFF for i in range(32)))
    if stale:
        for an, ln_ in STALE:
            open(os.path.join(od, an), "wb").write((b"\xee" if an.endswith(".bin") else b"9") * ln_)
    fw = os.path.join(d, "fw.bin")
    open(fw, "wb").write(plaintext)
    CE.main(encrypt_subcommand="encrypt-and-generate", encrypt_script=os.path.join(REPO, "ncs", "encrypt_script.py"), firmware=fw, key_name=kname, key_id=kid, context=kd, hash_alg=hash_name, kw_alg="direct", kms_script=os.path.join(REPO, "ncs", "basic_kms.py"), output_dir=od)
    return od


def v_real():
    from vlib import repoenv

    repoenv.prepare_concrete()
    n = 0
    notes = []
    for ln, kid, hn in ((0, 0, "sha-256"), (1, 23, "sha-384"), (16, 24, "sha-512"), (33, 0xFFFFFFFF, "shake128"), (5000, 65536, "shake256")):
        d = tempfile.mkdtemp(prefix="verif-c06-")
        try:
            pt = bytes((i * 7 + 1) & 0xFF for i in range(ln))
            key = bytes(range(32))
            try:
                od = _real_run(d, pt, key, kid, hn)
                r = check_artifacts(od, pt, key, kid, hn)
            except Exception as e:  # noqa
                r = f"raises {type(e).__name__}: {e}"
            n += 1
            if r:
                notes.append((ln, kid, hn, r))
        finally:
            import shutil

            shutil.rmtree(d, ignore_errors=True)
    return dict(verdict="CONFIRMED", paths=n, validated=n - len(notes), observations=notes[:5], message=("observations: " + repr(notes[:2])) if notes else "")


def replay(obligation, params, cex):
    import cbor2

    d = tempfile.mkdtemp(prefix="verif-c06r-")
    try:
        kid = cex.get("key_id", 0)
        if obligation.startswith("encrypt_and_generate"):
            obligation = "encrypt_and_generate"
        if obligation in ("encrypt_and_generate", "info_accepted_by_create"):
            ln = cex.get("pt_len", 3)
            hn = DIGESTS[cex.get("digest", 0)][1]
            pt = bytes((i * 5 + 2) & 0xFF for i in range(ln))
            key = bytes((i * 3 + 9) & 0xFF for i in range(32))
            try:
                od = _real_run(d, pt, key, kid, hn, kname=cex.get("key_name", "fwkey"), stale=bool(cex.get("stale_outputs")))
            except Exception as e:  # noqa
                return dict(reproduced=True, detail=f"raises {type(e).__name__}: {e}")
            r = check_artifacts(od, pt, key, kid, hn)
            if r is None and obligation == "info_accepted_by_create":
                import suit_generator.suit.manifest as MF

                f = os.path.join(od, "suit_encryption_info.bin")
                try:
                    enc = MF.SuitParameters.from_obj({"suit-parameter-encryption-info": {"file": f}}).to_cbor()
                    if cbor2.loads(enc) != {19: cbor2.loads(open(f, "rb").read())}:
                        r = "create does not carry the emitted encryption info unchanged"
                    else:
                        back = MF.SuitParameters.from_cbor(enc).to_obj()["suit-parameter-encryption-info"]["CoseEncryptTagged"]
                        if back["recipients"][0]["unprotected"].get("suit-cose-key-id") != kid:
                            r = "parse does not show the key id"
                except Exception as e:  # noqa
                    r = f"create/parse of the emitted info raises {type(e).__name__}: {e}"
            return dict(reproduced=r is not None, detail=r or "artifacts consistent")
        if obligation == "generate_info":
            import suit_generator.cmd_encrypt as CE
            from vlib.repoenv import REPO

            n = cex.get("blob_len", 28)
            kw = cex.get("kw_alg", "direct")
            blob = bytes((i * 9 + 4) & 0xFF for i in range(n))
            fe, fk, od = os.path.join(d, "enc.bin"), os.path.join(d, "cek.bin"), os.path.join(d, "o")
            os.makedirs(od)
            open(fe, "wb").write(blob)
            open(fk, "wb").write(b"CEK45")
            try:
                CE.main(encrypt_subcommand="generate-info", encrypt_script=os.path.join(REPO, "ncs", "encrypt_script.py"), encrypted_firmware=fe, encrypted_key=fk, key_id=kid, kw_alg=kw, output_dir=od)
            except Exception as e:  # noqa
                return dict(reproduced=True, detail=f"raises {type(e).__name__}: {e}")
            content = open(os.path.join(od, "encrypted_content.bin"), "rb").read()
            tagged = cbor2.loads(cbor2.loads(open(os.path.join(od, "suit_encryption_info.bin"), "rb").read()))
            bad = None
            if content != blob[12:28] + blob[28:]:
                bad = "encrypted_content.bin is not tag||ciphertext of the blob"
            elif tagged.tag != 96 or tagged.value[1].get(5) != blob[:12]:
                bad = "IV in the info is not the first 12 bytes of the blob"
            elif dict(tagged.value[3][0][1]) != {1: -5 if kw == "aes-kw-256" else -6, 4: cbor2.dumps(kid)} or tagged.value[3][0][2] != b"CEK45":
                bad = "recipient does not name the key id / wrapped key"
            return dict(reproduced=bad is not None, detail=bad or "split without altering a byte")
        return dict(reproduced=None, detail="unknown obligation")
    finally:
        import shutil

        shutil.rmtree(d, ignore_errors=True)
