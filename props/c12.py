"""C12 - MPI records and merged MPI areas have the exact device layout (suit_generator/cmd_mpi.py).  Engine E2."""
from __future__ import annotations

import hashlib
import os
import tempfile
import uuid

from vlib.ob import Ob

PROPERTY = "C12"

META = {
    "files": ["suit_generator/cmd_mpi.py"],
    "engine": "E2 kernsym (symbolic interpretation of the real AST, z3)",
    "functions": [
        "suit_generator.cmd_mpi.MpiGenerator.generate",
        "suit_generator.cmd_mpi.MpiGenerator.merge",
        "suit_generator.cmd_mpi.main",
    ],
    "bounds": "generate: address 0..2^32-1, size 48..2^24, downgrade/independent flags symbolic, signature policy symbolic over "
    "{None, 'update', 'update-and-boot', other}, vendor/class abstract strings; merge: 0..4 input files (quick) / 5, 6, 8 (thorough), "
    "each one interval [lo, lo+len) with lo 0..2^32-1, len 1..2^20 symbolic and opaque content, plus a two-segment file; "
    "area address 0..2^32-1, size 1..2^24",
    "stubs": [
        "uuid.uuid5 -> uninterpreted token U(ns, name) with opaque 16 bytes",
        "intelhex.IntelHex -> interval model with symbolic addresses (frombytes, minaddr, maxaddr, merge with overlap "
        "detection, tobinstr with padding, write_hex_file); validated against the real library in stub_validation",
        "cryptography hashes.Hash -> logs its input rope, returns an opaque digest_size token",
    ],
    "outside": ["Intel-HEX text syntax (library; validated concretely)", "SHA-256 itself (library); sizes < 48 for generate", "more than 8 merge inputs"],
    "assumptions": ["intelhex 2.3.0 behaves as the interval model on the validated cases"],
    "level_text": "Symbolic interpretation of the real generate/merge AST; per path the record rope / merged image is proved equal to the "
    "reference layout and the hash input proved to be exactly the area, for all addresses/sizes/placements in the bounds.",
    "technique": "symbolic execution of the real function AST into SMT (z3): per-path verification conditions over byte ropes and address intervals",
}


def obligations(tier):
    obs = [
        Ob("stub_validation", "V", "v_stubs", {}, 120, "interval model vs real intelhex; translator concrete mode vs real code", twin=False, weight=5),
        Ob("generate", "E2", "k_generate", {"via_main": False}, 300, "address<2^32, size 48..2^24, 2x2x4 policies symbolic", weight=5),
        Ob("generate_via_main", "E2", "k_generate", {"via_main": True}, 300, "same through main() dispatch", weight=5),
        Ob("merge_n0", "E2", "k_merge", {"n": 0}, 300, "no inputs (None and [])", weight=2),
        Ob("merge_n1", "E2", "k_merge", {"n": 1}, 300, "1 input anywhere", weight=3),
        Ob("merge_n2", "E2", "k_merge", {"n": 2}, 600, "2 inputs anywhere (inside/border/outside/overlapping)", weight=10),
        Ob("merge_n3", "E2", "k_merge", {"n": 3}, 900, "3 inputs anywhere", weight=60),
        Ob("merge_n4", "E2", "k_merge", {"n": 4}, 900, "4 inputs anywhere", weight=80),
        Ob("merge_two_segment_file", "E2", "k_merge", {"n": 1, "two_seg": True}, 600, "one input file with two separate segments", weight=10),
        Ob("merge_via_main", "E2", "k_merge", {"n": 1, "via_main": True}, 300, "1 input through main() dispatch; unknown sub-command rejected", weight=3),
    ]
    if tier == "thorough":
        for k in (5, 6, 8):
            obs.append(Ob(f"merge_n{k}", "E2", "k_merge", {"n": k}, 3000, f"{k} inputs anywhere", weight=100 * k))
    return obs


def _mod():
    from vlib import repoenv

    repoenv.add_repo_to_path()
    import suit_generator.cmd_mpi as M

    return M


def _interp(ctx, M, files=None):
    import uuid as _uuid

    from vlib import kernsym as K
    from vlib import ksmodels as KM
    from vlib.repoenv import REPO

    models = dict(K.BASE_MODELS)
    models[_uuid.uuid5] = KM.model_uuid5
    models[M.IntelHex] = KM.make_hex_model(files)
    models[M.hashes.Hash] = KM.make_hash_model()
    return K.Interp(ctx, [REPO], models=models)


def _mi(m, t, d=0):
    if m is None:
        return d
    try:
        return m.eval(t, model_completion=True).as_long()
    except Exception:
        return d


POLICY_DOMAIN = [None, "update", "update-and-boot", "boot"]


def k_generate(via_main=False, exclude=()):
    import time

    import z3

    from vlib import kernsym as K
    from vlib.ksvalues import AbsStr, EnumVal, Rope, SBool, SInt

    M = _mod()
    from suit_generator.exceptions import GeneratorError
    t0 = time.time()
    addr, size, sel = z3.Int("address"), z3.Int("size"), z3.Int("sv")
    dp, iu = z3.Bool("dp"), z3.Bool("iu")
    vendor = AbsStr("VENDOR", z3.Int("vid"), z3.Int("vul"), z3.Int("vcl"))
    klass = AbsStr("CLASS", z3.Int("cid"), z3.Int("cul"), z3.Int("ccl"))
    enc = []

    def run(ctx):
        ctx.assume(z3.And(addr >= 0, addr < 2**32, size >= 48, size <= 2**24, sel >= 0, sel < len(POLICY_DOMAIN)))
        it = _interp(ctx, M)
        sv = EnumVal(sel, POLICY_DOMAIN)
        if via_main:
            it.call_function(M.main, [], dict(mpi="generate", output_file="out.hex", vendor_name=vendor, class_name=klass, address=SInt(addr), size=SInt(size), downgrade_prevention_enabled=SBool(dp), independent_updates=SBool(iu), signature_verification=sv), None)
        else:
            it.call_function(M.MpiGenerator.generate, ["out.hex", vendor, klass, SInt(addr), SInt(size), SBool(dp), SBool(iu), sv], {}, None)
        enc[:] = sorted(it.encoded)
        return None

    paths = K.explore(run, modules=[M])
    vpp, samples = [], []
    dns = ("uuid", str(uuid.NAMESPACE_DNS))
    vid_key = ("u5", dns, "VENDOR")
    cid_key = ("u5", vid_key, "CLASS")
    seen_ret = seen_raise = 0
    for p in paths:
        if p.outcome == "raise":
            seen_raise += 1
            vcs = [("only GeneratorError", z3.BoolVal(isinstance(p.value, GeneratorError))), ("raise only for an unsupported policy string", sel == 3), ("nothing written", z3.BoolVal(not any(e[0] == "hexwrite" for e in p.log)))]
            vpp.append((p, vcs))
            samples.append("raise " + type(p.value).__name__)
            continue
        seen_ret += 1
        w = [e for e in p.log if e[0] == "hexwrite"]
        vcs = [("supported policy on success", sel != 3)]
        ok = len(w) == 1 and w[0][1] == "out.hex" and len(w[0][2]) == 1
        vcs.append(("exactly one hex file with one record", z3.BoolVal(ok)))
        if ok:
            a, rope = w[0][2][0]
            vcs.append(("record placed at the given address", a == addr))
            segs = list(Rope.of(rope).segs)
            shape = len(segs) >= 3 and segs[0].kind == "const" and len(segs[0].a) == 16 and segs[1].kind == "opaque" and segs[2].kind == "opaque"
            vcs.append(("record shape: 16 header bytes, vendor UUID, class UUID", z3.BoolVal(shape)))
            if shape:
                h = segs[0].a
                vcs.append(("version byte 1", z3.BoolVal(h[0] == 1)))
                vcs.append(("downgrade prevention byte", z3.And(z3.BoolVal(h[1] in (1, 2)), dp == z3.BoolVal(h[1] == 2))))
                vcs.append(("independent updates byte", z3.And(z3.BoolVal(h[2] in (1, 2)), iu == z3.BoolVal(h[2] == 2))))
                vcs.append(("signature verification byte", z3.And(z3.BoolVal(h[3] in (1, 2, 3)), sel == h[3] - 1)))
                vcs.append(("twelve reserved FF bytes", z3.BoolVal(h[4:] == b"\xff" * 12)))
                vcs.append(("vendor id == uuid5(DNS, vendor)", z3.BoolVal(segs[1].a == vid_key and segs[1].b == 16)))
                vcs.append(("class id == uuid5(uuid5(DNS, vendor), class)", z3.BoolVal(segs[2].a == cid_key and segs[2].b == 16)))
                rest = segs[3:]
                if not rest:
                    vcs.append(("no padding only when size == 48", size == 48))
                else:
                    vcs.append(("FF padding up to the reserved size", z3.And(z3.BoolVal(len(rest) == 1 and rest[0].kind == "fill" and rest[0].a == 0xFF), rest[0].b == size - 48 if rest[0].kind == "fill" else z3.BoolVal(False))))
        vpp.append((p, vcs))
        samples.append("ret " + repr(w[0][2][0][1])[:200] if w else "ret (no write)")

    def cex(p, m):
        return {"address": _mi(m, addr), "size": _mi(m, size, 48), "dp": bool(m and z3.is_true(m.eval(dp, model_completion=True))), "iu": bool(m and z3.is_true(m.eval(iu, model_completion=True))), "sv": POLICY_DOMAIN[_mi(m, sel) % 4], "via_main": via_main, "names_equal": bool(m is not None and _mi(m, vendor.ident, 1) == _mi(m, klass.ident, 2))}

    from props.c10 import _finish

    res = _finish(K, vpp, paths, t0, samples, cex, small=(size,))
    res["functions"] = enc
    if res["verdict"] == "CONFIRMED" and (seen_ret < 12 or seen_raise < 1):
        res["verdict"] = "VACUOUS"
        res["message"] = f"coverage ret={seen_ret} raise={seen_raise}"
    return res


def k_merge(n=1, two_seg=False, via_main=False, exclude=()):
    import time

    import z3

    from vlib import kernsym as K
    from vlib.ksvalues import Rope, Seg, SInt

    M = _mod()
    from suit_generator.exceptions import GeneratorError
    t0 = time.time()
    addr, size = z3.Int("address"), z3.Int("size")
    los = [z3.Int(f"lo{i}") for i in range(n)]
    lens = [z3.Int(f"len{i}") for i in range(n)]
    gap, len_b = z3.Int("gap"), z3.Int("len_b")
    none_files = z3.Bool("files_is_none")
    bogus = z3.Bool("bogus_subcommand")
    names = [f"in{i}.hex" for i in range(n)]

    def file_segs(i):
        segs = [(los[i], Rope([Seg("opaque", f"F{i}", lens[i])]))]
        if two_seg:
            segs.append((los[i] + lens[i] + gap, Rope([Seg("opaque", f"F{i}b", len_b)])))
        return segs

    def intervals():
        out = []
        for i in range(n):
            for a, r in file_segs(i):
                out.append((a, r.length(), r.segs[0].a))
        return out

    def run(ctx):
        ctx.assume(z3.And(addr >= 0, addr < 2**32, size >= 1, size <= 2**24))
        for i in range(n):
            ctx.assume(z3.And(los[i] >= 0, los[i] < 2**32, lens[i] >= 1, lens[i] <= 2**20))
        if two_seg:
            ctx.assume(z3.And(gap >= 1, gap <= 2**20, len_b >= 1, len_b <= 2**20))
        files = {names[i]: file_segs(i) for i in range(n)}
        it = _interp(ctx, M, files)
        flist = list(names)
        if n == 0 and ctx.branch(none_files):
            flist = None
        if via_main:
            sub = "bogus" if ctx.branch(bogus) else "merge"
            it.call_function(M.main, [], dict(mpi=sub, output_file="out.hex", address=SInt(addr), size=SInt(size), file=flist), None)
        else:
            it.call_function(M.MpiGenerator.merge, ["out.hex", SInt(addr), SInt(size), flist], {}, None)
        return None

    paths = K.explore(run, max_paths=20000, modules=[M])
    ivs = intervals()
    inside = [z3.And(a >= addr, a + ln - 1 <= addr + size - 1) for a, ln, _ in ivs]
    overlaps = []
    for i in range(len(ivs)):
        for j in range(i + 1, len(ivs)):
            (a, la, ida), (b, lb, idb) = ivs[i], ivs[j]
            if two_seg and ida.rstrip("b") == idb.rstrip("b"):
                continue  # segments of one file never overlap by construction
            overlaps.append(z3.And(a < b + lb, b < a + la))
    any_outside = z3.Or(*[z3.Not(c) for c in inside]) if inside else z3.BoolVal(False)
    any_overlap = z3.Or(*overlaps) if overlaps else z3.BoolVal(False)
    vpp, samples = [], []
    kinds = set()
    for p in paths:
        w = [e for e in p.log if e[0] == "hexwrite"]
        if p.outcome == "raise":
            nm = type(p.value).__name__
            kinds.add(nm)
            vcs = [("nothing written on rejection", z3.BoolVal(not w))]
            if via_main and nm == "GeneratorError" and "subcommand" in str(p.value):
                vcs.append(("unknown sub-command", bogus))
            elif nm == "GeneratorError":
                vcs.append(("rejection: some input reaches outside the area", any_outside))
            elif nm == "AddressOverlapError":
                vcs.append(("rejection: two inputs overlap", any_overlap))
            else:
                vcs.append((f"unexpected exception {nm}", z3.BoolVal(False)))
            vpp.append((p, vcs))
            samples.append("raise " + nm)
            continue
        kinds.add("ret")
        vcs = [("accepted only if every input is inside the area", z3.Not(any_outside)), ("accepted only without overlaps", z3.Not(any_overlap))]
        ok = len(w) == 1 and w[0][1] == "out.hex" and len(w[0][2]) == 1
        vcs.append(("exactly one output image", z3.BoolVal(ok)))
        hashes_ = [e for e in p.log if e[0] == "hash"]
        vcs.append(("exactly one SHA-256 computation", z3.BoolVal(len(hashes_) == 1 and hashes_[0][1] == "sha256" and hashes_[0][2] == 32 and len(hashes_[0][3]) == 1)))
        if ok and len(hashes_) == 1 and len(hashes_[0][3]) == 1:
            a, rope = w[0][2][0]
            segs = list(Rope.of(rope).segs)
            vcs.append(("image placed at the area address", a == addr))
            shape = len(segs) == 2 and segs[0].kind == "area" and segs[1].kind == "opaque" and segs[1].a == ("hash", "sha256", 0)
            vcs.append(("image == area ‖ digest", z3.BoolVal(shape)))
            if shape:
                ar = segs[0]
                vcs.append(("area starts at address", ar.a == addr))
                vcs.append(("area ends at address+size-1", ar.b == addr + size - 1))
                vcs.append(("area padding is FF", z3.BoolVal(ar.d == 0xFF)))
                got = sorted((repr(r.segs[0].a), str(z3.simplify(aa))) for aa, r in ar.c)
                exp = sorted((repr(i), str(z3.simplify(aa))) for aa, ln, i in ivs)
                vcs.append(("area holds every input at its original address", z3.BoolVal(got == exp)))
                hin = Rope.of(hashes_[0][3][0]).segs
                vcs.append(("digest input is exactly the area", z3.BoolVal(len(hin) == 1 and hin[0] is ar)))
        vpp.append((p, vcs))
        samples.append("ret area+digest")

    def cex(p, m):
        d = {"address": _mi(m, addr), "size": _mi(m, size, 1), "inputs": [[_mi(m, los[i]), _mi(m, lens[i], 1)] for i in range(n)], "via_main": via_main, "two_seg": two_seg}
        if two_seg:
            d["gap"], d["len_b"] = _mi(m, gap, 1), _mi(m, len_b, 1)
        if n == 0:
            d["files_none"] = bool(m and z3.is_true(m.eval(none_files, model_completion=True)))
        if via_main:
            d["bogus"] = bool(m and z3.is_true(m.eval(bogus, model_completion=True)))
        return d

    from props.c10 import _finish

    res = _finish(K, vpp, paths, t0, samples, cex, small=tuple([size] + lens))
    want = {"ret"} | ({"GeneratorError"} if n >= 1 else set()) | ({"AddressOverlapError"} if n >= 2 else set())
    if res["verdict"] == "CONFIRMED" and not want <= kinds:
        res["verdict"] = "VACUOUS"
        res["message"] = f"outcome kinds {kinds}"
    return res


# ------------------------------------------------------------------------------------------------ validation / replay


def ref_record(vendor, klass, dp, iu, sv, size):
    vid = uuid.uuid5(uuid.NAMESPACE_DNS, vendor)
    cid = uuid.uuid5(vid, klass)
    pol = {None: 1, "update": 2, "update-and-boot": 3}[sv]
    rec = bytes([1, 2 if dp else 1, 2 if iu else 1, pol]) + b"\xff" * 12 + vid.bytes + cid.bytes
    return rec + b"\xff" * (size - len(rec))


def _run_generate(M, d, vendor, klass, address, size, dp, iu, sv, via_main=False):
    from vlib.hexread import read_hex

    out = os.path.join(d, "g.hex")
    if via_main:
        M.main(mpi="generate", output_file=out, vendor_name=vendor, class_name=klass, address=address, size=size, downgrade_prevention_enabled=dp, independent_updates=iu, signature_verification=sv)
    else:
        M.MpiGenerator.generate(out, vendor, klass, address, size, dp, iu, sv)
    return read_hex(open(out).read())


def _write_hex(path, segs):
    from intelhex import IntelHex

    ih = IntelHex()
    for a, data in segs:
        ih.frombytes(data, a)
    ih.write_hex_file(path)


def _check_merge(M, d, address, size, inputs, via_main=False, files_none=False, sub="merge"):
    """inputs: list of list of (addr, bytes).  Returns None if the real code behaves per the property, else text."""
    from vlib.hexread import read_hex

    files = []
    for i, segs in enumerate(inputs):
        f = os.path.join(d, f"in{i}.hex")
        _write_hex(f, segs)
        files.append(f)
    flat = [(a, b) for segs in inputs for a, b in segs]
    outside = any(a < address or a + len(b) - 1 > address + size - 1 for a, b in flat)
    overlap = False
    for i in range(len(inputs)):
        for j in range(i + 1, len(inputs)):
            for a, x in inputs[i]:
                for b, y in inputs[j]:
                    if a < b + len(y) and b < a + len(x):
                        overlap = True
    out = os.path.join(d, "m.hex")
    if os.path.exists(out):
        os.remove(out)
    try:
        if via_main:
            M.main(mpi=sub, output_file=out, address=address, size=size, file=None if files_none else files)
        else:
            M.MpiGenerator.merge(out, address, size, None if files_none else files)
    except Exception as e:  # noqa
        if os.path.exists(out):
            return f"rejected with {type(e).__name__} but an output file exists"
        nm = type(e).__name__
        if sub != "merge":
            return None if nm == "GeneratorError" else f"unknown sub-command raises {nm}"
        if nm == "GeneratorError" and outside:
            return None
        if nm == "AddressOverlapError" and overlap:
            return None
        return f"placement rejected with {nm} without justification (outside={outside}, overlap={overlap}): {e}"
    if outside or overlap:
        return "an input outside the area / overlapping another was accepted"
    mem = read_hex(open(out).read())
    area = bytearray(b"\xff" * size)
    for a, b in flat:
        area[a - address : a - address + len(b)] = b
    img = bytes(area) + hashlib.sha256(bytes(area)).digest()
    exp = {address + i: img[i] for i in range(len(img))}
    if mem != exp:
        return "merged image differs from area ‖ SHA-256(area)"
    return None


def _concretize(rope):
    """bytes of a rope whose terms are all numerals (concrete mode)."""
    import z3

    from vlib.ksvalues import Rope

    def val(t):
        return t if isinstance(t, int) else z3.simplify(t).as_long()

    out = bytearray()
    for sg in Rope.of(rope).segs:
        if sg.kind == "const":
            out += sg.a
        elif sg.kind == "fill":
            out += bytes([sg.a]) * val(sg.b)
        elif sg.kind == "int":
            out += val(sg.a).to_bytes(sg.b, sg.c)
        elif sg.kind == "area":
            a, b = val(sg.a), val(sg.b)
            img = bytearray([sg.d]) * (b - a + 1)
            for aa, r in sg.c:
                data = _concretize(r)
                aa = val(aa)
                for i, x in enumerate(data):
                    if a <= aa + i <= b:
                        img[aa + i - a] = x
            out += img
        else:
            raise ValueError("opaque segment in concrete mode")
    return bytes(out)


def v_stubs():
    """(1) the IntelHex interval model against the real intelhex library (no repository code involved);
    (2) kernsym in concrete mode against the real generate()/merge() (both run the same repository code)."""
    import z3
    from intelhex import AddressOverlapError, IntelHex

    from vlib import kernsym as K
    from vlib import ksmodels as KM
    from vlib.hexread import read_hex
    from vlib.ksvalues import Rope

    M = _mod()
    n = 0
    bad = []
    A, S = 0x10000 - 32, 128
    b = lambda k, c: bytes([c]) * k  # noqa
    cases = [
        [],
        [[(A, b(48, 1))]],
        [[(A + S - 48, b(48, 2))]],
        [[(A - 1, b(48, 3))]],
        [[(A + S - 47, b(48, 4))]],
        [[(A, b(48, 1))], [(A + 48, b(48, 2))]],
        [[(A, b(48, 1))], [(A + 47, b(48, 2))]],
        [[(A + 60, b(10, 1))], [(A, b(61, 2))]],
        [[(A, b(10, 1)), (A + 100, b(10, 5))], [(A + 20, b(48, 2))]],
        [[(A, b(10, 1)), (A + 100, b(10, 5))], [(A + 95, b(10, 2))]],
        [[(A, b(S, 7))]],
        [[(A, b(S + 1, 7))]],
        [[(0xFFFFFF00, b(16, 9))], [(0xFFFFFF10, b(16, 8))]],
    ]
    d = tempfile.mkdtemp(prefix="verif-c12-")
    try:
        # (1) model vs library
        for inputs in cases:
            ctx = K.Ctx([])
            it = K.Interp(ctx, [])
            real_m, mod_m = IntelHex(), KM.KHex(it)
            r_exc = m_exc = None
            for segs in inputs:
                rh, mh = IntelHex(), KM.KHex(it)
                for a, data in segs:
                    rh.frombytes(data, a)
                    mh.frombytes(data, a)
                n += 1
                if (rh.minaddr(), rh.maxaddr()) != (z3.simplify(mh.minaddr().t).as_long(), z3.simplify(mh.maxaddr().t).as_long()):
                    bad.append(("min/max", [(a, len(x)) for a, x in segs]))
                try:
                    real_m.merge(rh)
                except AddressOverlapError:
                    r_exc = "overlap"
                try:
                    mod_m.merge(mh)
                except K.PyRaise as e:
                    m_exc = "overlap" if type(e.exc).__name__ == "AddressOverlapError" else type(e.exc).__name__
                if r_exc or m_exc:
                    break
            n += 1
            if r_exc != m_exc:
                bad.append(("merge outcome", r_exc, m_exc))
                continue
            if r_exc:
                continue
            real_m.padding = 0xFF
            mod_m.padding = 0xFF
            for st, en in ((A, A + S - 1), (A - 5, A + S + 5), (A + 3, A + 3)):
                n += 1
                if real_m.tobinstr(start=st, end=en) != _concretize(mod_m.tobinstr(start=st, end=en)):
                    bad.append(("tobinstr", st, en))
        # (2) translator validation
        for address, size, dp, iu, sv in ((0x1000, 64, False, True, None), (0xFFF0, 48, True, False, "update"), (0x0E1EC000, 200, True, True, "update-and-boot"), (5, 48, False, False, "bogus")):
            try:
                mem, rex = _run_generate(M, d, "nordicsemi.com", "nRF54H20_sample_root", address, size, dp, iu, sv), None
            except Exception as e:  # noqa
                mem, rex = None, type(e).__name__

            def run(ctx):
                it = _interp(ctx, M)
                it.force = True
                it.call_function(M.MpiGenerator.generate, ["o.hex", "nordicsemi.com", "nRF54H20_sample_root", address, size, dp, iu, sv], {}, None)

            ps = K.explore(run)
            n += 1
            p = ps[0]
            if len(ps) != 1 or (p.outcome == "raise") != (rex is not None) or (rex and type(p.value).__name__ != rex):
                bad.append(("generate outcome", address, size, sv, rex))
                continue
            if rex is None:
                w = [e for e in p.log if e[0] == "hexwrite"][0]
                a, rope = w[2][0]
                data = _concretize(rope)
                a = z3.simplify(a).as_long()
                if mem != {a + i: data[i] for i in range(len(data))}:
                    bad.append(("generate bytes", address, size))
        for inputs in cases:
            files = []
            for i, segs in enumerate(inputs):
                f = os.path.join(d, f"v{i}.hex")
                _write_hex(f, segs)
                files.append(f)
            out = os.path.join(d, "vm.hex")
            try:
                M.MpiGenerator.merge(out, A, S, files)
                mem, rex = read_hex(open(out).read()), None
            except Exception as e:  # noqa
                mem, rex = None, type(e).__name__

            def run(ctx):
                kfiles = {files[i]: [(z3.IntVal(a), Rope.const(x)) for a, x in segs] for i, segs in enumerate(inputs)}
                it = _interp(ctx, M, kfiles)
                it.force = True
                it.call_function(M.MpiGenerator.merge, ["o.hex", A, S, files], {}, None)

            ps = K.explore(run)
            n += 1
            p = ps[0]
            if len(ps) != 1 or (p.outcome == "raise") != (rex is not None) or (rex and type(p.value).__name__ != rex):
                bad.append(("merge outcome", [[(a, len(x)) for a, x in sg] for sg in inputs], rex, p.outcome == "raise" and type(p.value).__name__))
                continue
            if rex is None:
                w = [e for e in p.log if e[0] == "hexwrite"][0]
                a, rope = w[2][0]
                segs = Rope.of(rope).segs
                hin = [e for e in p.log if e[0] == "hash"][0][3]
                img = b""
                for sg in segs:
                    if sg.kind == "opaque" and isinstance(sg.a, tuple) and sg.a[0] == "hash":
                        # the model's digest token stands for SHA-256 of its logged input
                        img += hashlib.sha256(b"".join(_concretize(x) for x in hin)).digest()
                    else:
                        img += _concretize(Rope([sg]))
                a = z3.simplify(a).as_long()
                if mem != {a + i: img[i] for i in range(len(img))}:
                    bad.append(("merge bytes", [[(a, len(x)) for a, x in sg] for sg in inputs]))
    finally:
        import shutil

        shutil.rmtree(d, ignore_errors=True)
    return dict(verdict="CONFIRMED" if not bad else "ERROR", paths=n, validated=n, message=("model validation failed: " + repr(bad[:4])) if bad else "")


def replay(obligation, params, cex):
    M = _mod()
    d = tempfile.mkdtemp(prefix="verif-c12r-")
    try:
        if obligation.startswith("generate"):
            sv = cex.get("sv")
            vname, cname = "vendor.example", ("vendor.example" if cex.get("names_equal") else "class-é")
            try:
                mem = _run_generate(M, d, vname, cname, cex["address"], cex["size"], cex["dp"], cex["iu"], sv, cex.get("via_main", False))
            except Exception as e:  # noqa
                if sv not in (None, "update", "update-and-boot") and type(e).__name__ == "GeneratorError" and not os.listdir(d):
                    return dict(reproduced=False, detail="unsupported policy rejected")
                return dict(reproduced=True, detail=f"raises {type(e).__name__}: {e}")
            if sv not in (None, "update", "update-and-boot"):
                return dict(reproduced=True, detail="unsupported policy string accepted")
            rec = ref_record(vname, cname, cex["dp"], cex["iu"], sv, cex["size"])
            exp = {cex["address"] + i: rec[i] for i in range(len(rec))}
            return dict(reproduced=mem != exp, detail="record differs from the reference layout" if mem != exp else "record matches")
        inputs = []
        for i, (lo, ln) in enumerate(cex.get("inputs", [])):
            segs = [(lo, bytes([(i * 16 + 1) & 0xFF]) * ln)]
            if cex.get("two_seg"):
                segs.append((lo + ln + cex.get("gap", 1), bytes([0x77]) * cex.get("len_b", 1)))
            inputs.append(segs)
        sub = "bogus" if cex.get("bogus") else "merge"
        r = _check_merge(M, d, cex["address"], cex["size"], inputs, cex.get("via_main", False), cex.get("files_none", False), sub)
        return dict(reproduced=r is not None, detail=r or "real merge behaves per the property")
    finally:
        import shutil

        shutil.rmtree(d, ignore_errors=True)
