"""C17 - parsing untrusted bytes fails cleanly (types/common.py, manifest.py, security.py, exceptions.py)."""
from __future__ import annotations

from vlib.ob import Ob

PROPERTY = "C17"

META = {
    "files": ["suit_generator/suit/types/common.py", "suit_generator/suit/manifest.py", "suit_generator/suit/security.py", "suit_generator/suit/envelope.py", "suit_generator/suit/payloads.py", "suit_generator/exceptions.py"],
    "functions": [
        "from_cbor / to_obj of every node class reachable from SuitEnvelopeTagged and SuitEnvelopeTaggedSimplified (91 classes, live metadata walk)",
        "SuitObject.decode_cbor_length / validate_cbor / deserialize_cbor / ensure_cbor",
    ],
    "bounds": "per node class: input = encoding of a CBOR value skeleton - depth 0: every scalar kind by solver-chosen selector (uint/nint over the full 64-bit range, byte "
    "strings of 0..2 symbolic bytes, text of 0..1 symbolic ASCII characters, empty array/map, null/true/false, float, simple value, tag with symbolic number, semantic tag) and "
    "raw input bytes of length 1 (every value); depth 1: arrays of 1-2 children, maps with one entry whose key is a registered/unregistered code or a text/bytes key, tags - "
    "children any scalar by selector; length pre-check: every 9-byte input whose initial byte announces a 1/2/4/8-byte length for major types 2..5",
    "stubs": ["cbor2 -> vlib/cbormodel (differentially validated; semantic tags only with content cbor2 accepts); bytes.hex() -> provenance string (error messages)", "yaml.dump behind pretty_format_obj -> failure model (raises TypeError exactly for values containing the decoder's extension types; validated against the real library)"],
    "outside": [
        "wall time, memory and recursion depth of the C decoder (no engine here executes C symbolically); nesting depth of the tool's own recursive parser is not a symbolic variable either: "
        "the RecursionError escape at ~165 nested directives (F15, fixed) was found by a sub-agent's probe and is guarded by the concrete obligation deep_nesting_guard only",
        "nested (non top-level) absurd length fields are handed to cbor2 unchecked by design of validate_cbor; what the pre-check covers is stated in obligation length_precheck",
        "value skeletons deeper than 1 below a class (composition: containers hand each child its re-serialised item or its raw byte-string content, both inside the per-class domain)",
    ],
    "assumptions": ["cbor2.loads raises only Exception subclasses on malformed input (caught by deserialize_cbor)", "memory: only explicit bytes(n)/bytearray(n) requests of more than 1 MiB made by the traced code are modelled (flagged and answered with MemoryError)"],
    "level_text": "Per node class, path-exhaustive symbolic execution of from_cbor().to_obj() over value skeletons with symbolic leaves: the only exceptions that escape on any path "
    "are ValueError and SUITError.  Bounded by skeleton depth and leaf sizes; composition argument for deeper nesting stated in DESIGN.md.",
}

ALLOWED = ("ValueError", "SUITError")
QUICK_D1 = [
    "SuitEnvelopeTagged", "SuitEnvelope", "SuitManifest", "SuitParameters", "SuitHeaderMap", "SuitCommon", "SuitDigestRaw", "CoseSign1", "SuitAuthentication", "CoseRecipient",
    "CoseEncrypt", "SuitCondition", "SuitDirective", "SuitParameterVersion", "SuitTextMap", "SuitTextLMap", "SuitDependencies", "SuitIntegratedPayloadMap", "SuitCommandSequence",
    "SuitComponentIdentifier", "SuitComponents", "SuitIndex", "SuitSeverableText", "SuitParameterContent", "SuitRepPolicy", "CoseSign1Tagged", "SuitCoseHashAlg", "SuitBchar",
    "SuitUUID", "SuitDigest", "SuitSeverableCommandSequence", "SuitComponentIdentifierPart", "SuitcoseKeyId", "SuitDirectiveTryEachArgument", "SuitDelegationChain", "SuitCwtPayload",
]


def classes():
    from vlib import repoenv

    repoenv.add_repo_to_path()
    import suit_generator.suit.envelope as EN

    seen = {}

    def walk(c):
        if not isinstance(c, type) or id(c) in seen:
            return
        seen[id(c)] = c
        md = getattr(c, "_metadata", None)
        if md is None:
            return
        for ch in md.children or []:
            walk(ch)
        if md.map:
            for k, v in md.map.items():
                walk(k)
                walk(v)
        bc = getattr(c, "_bit_class", None)
        if bc:
            walk(bc)

    walk(EN.SuitEnvelopeTagged)
    walk(EN.SuitEnvelopeTaggedSimplified)
    out = [c for c in seen.values() if hasattr(c, "from_cbor")]
    names = []
    for i, c in enumerate(out):
        wrapped = c.__name__ == "Cbstr" or c.__qualname__.endswith("Cbstr") or (c.__mro__[1].__name__ == c.__name__ and c.__mro__[1] is not object)
        base = c.__mro__[1].__name__ if c.__name__ == "Cbstr" else c.__name__
        names.append(f"{i:02d}_{'cbstr_' if c.__name__ == 'Cbstr' or wrapped else ''}{base}")
    return out, names


def obligations(tier):
    cls, names = classes()
    bf = [has_bitfield(c) for c in cls]
    obs = [
        Ob("cbor_model_validation", "V", "v_cbor", {}, 300, "cbor model vs real cbor2 incl. malformed inputs", twin=False, weight=5),
        Ob("yaml_model_validation", "V", "v_yaml", {}, 120, "failure behaviour of yaml.dump (debug formatter) on real cbor2 values vs the model used by the harnesses", twin=False, weight=5),
        Ob("length_precheck", "E1", "h_precheck", {}, 600, "9-byte inputs, major types 2..5, length width 1/2/4/8: declared length > input length rejected before the decoder runs", weight=60),
    ]
    obs.append(Ob("deep_nesting_guard", "V", "v_deep", {}, 600, "CONCRETE regression guard for fixed finding F15 (not a solver claim): run-sequence / try-each nested 165, 400 and 3000 deep - only ValueError/SUITError may escape from_cbor().to_obj()", twin=False, weight=80))
    for i, n in enumerate(names):
        obs.append(Ob(f"d0_{n}", "E1", "h_fuzz", {"idx": i, "skel": "d0"}, 600, "every scalar kind with symbolic leaves" + (" (ints bounded to -300..300: bit-field below)" if bf[i] else ""), weight=30))
        obs.append(Ob(f"raw1_{n}", "E1", "h_fuzz", {"idx": i, "skel": "raw1"}, 600, "raw input of one symbolic byte (every value)", weight=15))
        short = n.split("_", 1)[1].replace("cbstr_", "")
        if tier == "thorough" or short in QUICK_D1:
            for sk in ("list1", "list2", "map1", "tag1", "mapbig"):
                if sk == "list2" and tier == "quick" and short not in QUICK_D1[:16]:
                    continue  # two-element arrays are the costliest skeleton: 16 central classes in the quick tier, all in thorough
                obs.append(Ob(f"{sk}_{n}", "E1", "h_fuzz", {"idx": i, "skel": sk}, 900, f"skeleton {sk}: children any scalar by selector" if sk != "mapbig" else "one-entry map, unregistered integer / text / bytes key, value any unsigned integer in (2^20, 2^64): no exception escapes and no buffer of that size is requested", weight=60 if sk != "mapbig" else 10))
    return obs


def deep_input(depth, code):
    """Envelope whose suit-invoke sequence holds `depth` nested run-sequence (32) / try-each (15) directives (about 6 bytes per level)."""
    import cbor2

    seq = cbor2.dumps([12, 0])
    for _ in range(depth):
        seq = cbor2.dumps([32, seq]) if code == 32 else cbor2.dumps([15, [seq]])
    man = cbor2.dumps({1: 1, 2: 1, 3: cbor2.dumps({2: [[b"a"]]}), 9: seq})
    return cbor2.dumps(cbor2.CBORTag(107, {2: cbor2.dumps([cbor2.dumps([-16, bytes(32)])]), 3: man}))


def deep_probe(depth, code):
    """None if parsing returns or fails cleanly, else the name of the escaping exception."""
    import suit_generator.suit.envelope as EN
    from suit_generator.exceptions import SUITError

    try:
        EN.SuitEnvelopeTagged.from_cbor(deep_input(depth, code)).to_obj()
    except (ValueError, SUITError):
        return None
    except Exception as e:  # noqa
        return type(e).__name__
    return None


def v_deep():
    """Depth is not a symbolic variable of any engine here (DESIGN.md section 11, F15): this concrete probe only guards the repair."""
    from vlib import repoenv

    repoenv.prepare_concrete()
    n = 0
    for code in (32, 15):
        for depth in (165, 400, 3000):
            n += 1
            r = deep_probe(depth, code)
            if r is not None:
                return dict(verdict="VIOLATED", paths=n, cex={"depth": depth, "code": code}, message=f"{r} escapes at nesting depth {depth}")
    return dict(verdict="CONFIRMED", paths=n, validated=n)


class YamlFailureModel:
    """PyYAML (C/third-party: executed concretely it would realise every symbolic leaf) stands behind the debug formatter
    pretty_format_obj.  What matters for this property is whether formatting *raises*: yaml.dump represents every Python value
    except the decoder's own extension types (CBORTag, undefined, simple values, frozendict - "cannot pickle", TypeError), wherever
    they sit in the value.  The model returns a constant text or raises that TypeError; validated against the real yaml.dump on
    real cbor2 values by obligation yaml_model_validation."""

    @staticmethod
    def _unrepresentable(x, depth=0):
        from vlib import cbormodel as M

        if isinstance(x, (M.CBORTag, M.SimpleValue, M.frozendict)):
            return True
        if depth > 6:
            return False
        if isinstance(x, dict):
            for k, v in x.items():
                if YamlFailureModel._unrepresentable(k, depth + 1) or YamlFailureModel._unrepresentable(v, depth + 1):
                    return True
            return False
        if isinstance(x, (list, tuple, set, frozenset)):
            for v in x:
                if YamlFailureModel._unrepresentable(v, depth + 1):
                    return True
        return False

    def dump(self, obj, *a, **kw):
        if self._unrepresentable(obj):
            raise TypeError("cannot pickle 'cbor2' extension object")
        return "<yaml>"

    def __getattr__(self, k):
        import yaml

        return getattr(yaml, k)


def v_yaml():
    """Model vs real: yaml.dump on real cbor2 values raises exactly where the model says."""
    import datetime
    import fractions

    import cbor2
    import yaml

    from vlib import cbormodel as M

    fd = cbor2.loads(cbor2.dumps(cbor2.CBORTag(1234, {1: 2}))).value
    pairs = [
        (cbor2.CBORTag(1234, 0), M.CBORTag(1234, 0)), (cbor2.undefined, M.SimpleValue(23)), (cbor2.CBORSimpleValue(99), M.SimpleValue(99)), (fd, M.frozendict([(1, 2)])),
        ([cbor2.CBORTag(7, 0)], [M.CBORTag(7, 0)]), ({1: cbor2.CBORTag(7, 0)}, {1: M.CBORTag(7, 0)}), ((1, cbor2.undefined), (1, M.SimpleValue(23))),
        (0, 0), (-(2**64), -(2**64)), (b"x", b"x"), ("t", "t"), (1.5, 1.5), (None, None), (True, True), ([1, [2, {3: b"4"}]], [1, [2, {3: b"4"}]]), ((1, 2), (1, 2)), ({1}, {1}),
        (datetime.datetime(2020, 1, 1, tzinfo=datetime.timezone.utc), "sem"), (fractions.Fraction(1, 3), "sem"),
    ]
    bad = []
    for real, model in pairs:
        try:
            yaml.dump(real)
            r = None
        except Exception as e:  # noqa
            r = type(e).__name__
        try:
            YamlFailureModel().dump(model)
            m = None
        except Exception as e:  # noqa
            m = type(e).__name__
        if r != m:
            bad.append((repr(real)[:40], r, m))
    if bad:
        return dict(verdict="ERROR", paths=len(pairs), message=f"yaml failure model disagrees with the real library: {bad[:3]}")
    return dict(verdict="CONFIRMED", paths=len(pairs), validated=len(pairs))


def v_cbor():
    from vlib import cborvalidate
    from vlib.repoenv import REPO

    return cborvalidate.validate(REPO, 1, 800)


# ------------------------------------------------------------------------------------------------ skeletons


def has_bitfield(cls, seen=None):
    """True if a SuitBitfield is reachable below cls: `value & (1 << bit)` realizes a symbolic int under CrossHair, so for
    these classes integers are bounded to -300..300 (solver-driven enumeration, stated in evidence)."""
    import suit_generator.suit.types.common as CM

    seen = seen if seen is not None else set()
    if not isinstance(cls, type) or id(cls) in seen:
        return False
    seen.add(id(cls))
    if issubclass(cls, CM.SuitBitfield):
        return True
    md = getattr(cls, "_metadata", None)
    if md is None:
        return False
    kids = list(md.children or []) + (list(md.map.values()) if md.map else [])
    return any(has_bitfield(k, seen) for k in kids)


INT_MAX = [2**64 - 1]


def _scalar(chx, cbormodel, tagname, kinds=None):
    """A CBOR value of a solver-chosen scalar kind with symbolic leaves.  Returns (value, kind index)."""
    k = chx.sym_sel(tagname + "_kind", 16)
    if k == 0:
        return chx.sym_int(tagname + "_u", 0, INT_MAX[0]), k
    if k == 1:
        return -1 - chx.sym_int(tagname + "_n", 0, INT_MAX[0]), k
    if k == 2:
        return chx.sym_bytes(tagname + "_b1", 1), k
    if k == 3:
        return b"", k
    if k == 4:
        return chx.sym_str(tagname + "_t", 1, 1, ascii_only=True), k
    if k == 5:
        return "", k
    if k == 6:
        return [], k
    if k == 7:
        return {}, k
    if k == 8:
        return None, k
    if k == 9:
        return True, k
    if k == 10:
        return False, k
    if k == 11:
        return 1.5, k
    if k == 12:
        t = chx.sym_int(tagname + "_tag", 6, 65535)
        for st in cbormodel.SEMANTIC_TAGS:
            chx.assume(t != st)
        return cbormodel.CBORTag(t, 0), k
    if k == 13:
        return cbormodel.CBORTag(1, 5), k  # datetime: a semantic object
    if k == 14:
        return cbormodel.SimpleValue(3), k
    return chx.sym_bytes(tagname + "_b2", 2), k


def _map_keys(cls):
    md = getattr(cls, "_metadata", None)
    ids = []
    if md is not None and md.map:
        for k in md.map:
            i = getattr(k, "id", None)
            if isinstance(i, int):
                ids.append(i)
    ids = ids[:3] + ids[-1:] if len(ids) > 4 else ids
    return sorted(set(ids + [99]))


def h_fuzz(idx, skel="d0", exclude=()):
    from vlib import repoenv

    repoenv.prepare_symbolic()
    import suit_generator.suit.types.common as CM
    from suit_generator.exceptions import SUITError

    from vlib import cbormodel, chx, hexprov
    from vlib.cbormodel import PairDict

    hexprov.install(CM)
    CM.yaml = YamlFailureModel()  # debug formatting (yaml.dump) as its failure behaviour: see YamlFailureModel
    cls_list, names = classes()
    cls = cls_list[idx]
    keys = _map_keys(cls)
    INT_MAX[0] = 300 if has_bitfield(cls) else 2**64 - 1

    def harness():
        cbormodel.reset()
        if skel == "raw1":
            data = chx.sym_bytes("raw", 1)
        else:
            if skel == "d0":
                v, _ = _scalar(chx, cbormodel, "v")
            elif skel == "list1":
                c, _ = _scalar(chx, cbormodel, "c")
                v = [c]
            elif skel == "list2":
                c, _ = _scalar(chx, cbormodel, "c")
                second = chx.pick("second", [0, b"\x01", "a", [], None])
                first = chx.sym_bool("child_first")
                v = [c, second] if first else [second, c]
            elif skel == "mapbig":
                big = chx.sym_int("big", (1 << 20) + 1, 2**64 - 1)
                key = chx.pick("bkey", [99, "#x", "", b"k"])
                v = PairDict([(key, big)])
            elif skel == "map1":
                c, _ = _scalar(chx, cbormodel, "c")
                kk = chx.sym_sel("keykind", 3)
                if kk == 0:
                    key = chx.pick("key", keys)
                elif kk == 1:
                    key = chx.pick("tkey", ["a", "", "#x"])
                else:
                    key = chx.pick("okey", [b"k", -1, (1, 2)])
                v = PairDict([(key, c)])
            else:
                c, _ = _scalar(chx, cbormodel, "c")
                t = chx.pick("tagnum", [107, 18, 96, 6, 24])
                v = cbormodel.CBORTag(t, c)
            data = cbormodel.dumps(v)
        try:
            o = cls.from_cbor(data)
            o.to_obj()
            ok = True
            exc = None
        except ValueError:
            ok, exc = True, None
        except SUITError:
            ok, exc = True, None
        except Exception as e:  # noqa
            ok, exc = False, type(e).__name__
        if ok and chx.STATE.get("alloc_alarm"):
            # the parser asked for a buffer of more than 1 MiB while looking at an input of a few dozen bytes (even if the error was swallowed)
            ok, exc = False, "allocation far beyond the input size"
        return chx.conclude(ok, data=data, exc=exc)

    return harness


def h_precheck(exclude=()):
    from vlib import repoenv

    repoenv.prepare_symbolic()
    import cbor2
    import suit_generator.suit.types.common as CM

    from vlib import cbormodel, chx, hexprov

    hexprov.install(CM)
    calls = []
    model_loads = cbor2.loads

    def spy(b, **kw):
        calls.append(1)
        return model_loads(b, **kw)

    def harness():
        cbormodel.reset()
        del calls[:]
        cbor2.loads = spy
        major = chx.sym_int("major", 2, 5)
        ai = chx.sym_int("ai", 24, 27)
        rest = chx.sym_bytes("rest", 8)
        data = bytes([major * 32 + ai]) + rest
        width = 1 if ai == 24 else (2 if ai == 25 else (4 if ai == 26 else 8))
        declared = 0
        for i in range(8):
            if i < width:
                declared = declared * 256 + rest[i]
        # the accepting side (declared <= input length) runs the decoder on symbolic bytes: that is the business of the
        # per-class obligations; here only the rejecting side is decided
        chx.assume(declared > len(data))
        try:
            CM.SuitObject.deserialize_cbor(data)
            raised = None
        except ValueError:
            raised = "ValueError"
        except Exception as e:  # noqa
            raised = type(e).__name__
        finally:
            cbor2.loads = model_loads
        if declared > len(data):
            ok = raised == "ValueError" and len(calls) == 0
        else:
            ok = raised in (None, "ValueError")
        return chx.conclude(ok, data=data, raised=raised)

    return harness


# ------------------------------------------------------------------------------------------------ replay


def replay(obligation, params, cex):
    import suit_generator.suit.types.common as CM
    from suit_generator.exceptions import SUITError

    if obligation == "deep_nesting_guard":
        r = deep_probe(cex["depth"], cex["code"])
        return dict(reproduced=r is not None, detail=f"{cex['depth']} nested directives (code {cex['code']}, {len(deep_input(cex['depth'], cex['code']))} bytes of input): " + (f"{r} escapes the envelope parser" if r else "clean"))
    data = cex.get("data", b"")
    if obligation == "length_precheck":
        import cbor2

        calls = []
        real = cbor2.loads

        def spy(b, **kw):
            calls.append(1)
            return real(b, **kw)

        cbor2.loads = spy
        try:
            try:
                CM.SuitObject.deserialize_cbor(data)
                raised = None
            except ValueError:
                raised = "ValueError"
            except Exception as e:  # noqa
                raised = type(e).__name__
        finally:
            cbor2.loads = real
        ai = data[0] & 31
        width = {24: 1, 25: 2, 26: 4, 27: 8}[ai]
        declared = int.from_bytes(data[1 : 1 + width], "big")
        if declared > len(data):
            bad = raised != "ValueError" or calls
        else:
            bad = raised not in (None, "ValueError")
        return dict(reproduced=bool(bad), detail=f"declared {declared}, input {len(data)} bytes, raised {raised}, decoder called {len(calls)}x")
    cls_list, names = classes()
    cls = cls_list[params["idx"]]
    # explicit buffer requests of the parser's own module, observed at the module seam (nothing that large is really allocated)
    asked = []

    class _Spy:
        def __init__(self, typ):
            self.typ = typ

        def __call__(self, *a, **kw):
            if len(a) == 1 and not kw and isinstance(a[0], int) and not isinstance(a[0], bool):
                asked.append(a[0])
                if a[0] > (1 << 20) + 256 * len(data):
                    raise MemoryError("refused by the replay")
            return self.typ(*a, **kw)

        def __getattr__(self, k):
            return getattr(self.typ, k)

    CM.bytes, CM.bytearray = _Spy(bytes), _Spy(bytearray)

    def big():
        return [n for n in asked if n > (1 << 20) + 256 * len(data)]

    try:
        cls.from_cbor(data).to_obj()
        if big():
            return dict(reproduced=True, detail=f"{cls.__name__}.from_cbor({data.hex()}) ({len(data)} bytes of input) requests a buffer of {big()[0]} bytes")
        return dict(reproduced=False, detail="returns a model")
    except (ValueError, SUITError) as e:
        if big():
            return dict(reproduced=True, detail=f"{cls.__name__}.from_cbor({data.hex()}) ({len(data)} bytes of input) requests a buffer of {big()[0]} bytes before rejecting")
        return dict(reproduced=False, detail=f"clean rejection {type(e).__name__}")
    except Exception as e:  # noqa
        import traceback

        tb = traceback.extract_tb(e.__traceback__)[-1]
        return dict(reproduced=True, detail=f"{cls.__name__}.from_cbor({data.hex()}) raises {type(e).__name__}: {e} at {tb.filename.split('/')[-1]}:{tb.lineno}", finding=None)
