"""C04 - signing attaches a verifiable COSE_Sign1 and changes nothing else (ncs/sign_script.py, ncs/basic_kms.py, cmd_sign.py)."""
from __future__ import annotations

import os
import tempfile

from vlib.ob import Ob

PROPERTY = "C04"

ALGS = [("ES_256", "es-256", "cose-alg-es-256"), ("ES_384", "es-384", "cose-alg-es-384"), ("ES_521", "es-521", "cose-alg-es-521"), ("EdDSA", "eddsa", "cose-alg-eddsa"), ("VS_HashEdDSA", "hash-eddsa", "cose-alg-vs-hash-eddsa")]

META = {
    "files": ["ncs/sign_script.py", "ncs/basic_kms.py", "suit_generator/cmd_sign.py", "suit_generator/suit_sign_script_base.py"],
    "engine": "E1 CrossHair (sign_script, cmd_sign) + E2 kernsym (basic_kms)",
    "functions": [
        "ncs.sign_script.Signer.sign_envelope/create_cose_structure/get_digest/already_signed_action/add_signature/create_authentication_block",
        "suit_generator.cmd_sign.main/load_envelope/save_envelope/single_level_sign",
        "ncs.basic_kms.SuitKMS.sign/_verify_signing_key_type/_get_sign_method/_create_cose_es_signature/_create_cose_ed_signature/_create_cose_ed_prehashed_signature",
    ],
    "bounds": "key identifier any int 0..2^32-1 (all CBOR head widths), algorithm one of 5 (solver-chosen), wrapper digest algorithm code/bytes and "
    "manifest/payload/signature bytes opaque symbolic, 0..2 integrated members, unsigned input; ECDSA (r,s) any integers in [0,2^bits) for bits in "
    "{256,384,521}; KMS: 5 key kinds x {pem,der} x 6 algorithm strings (5 + unknown), data opaque",
    "stubs": [
        "cbor2 -> vlib/cbormodel incl. cbor2 6 immutability of tag content",
        "Signer.init_kms_backend -> installs a KMS recorder (seam kms.sign) for the E1 obligations; the real SuitKMS.sign is interpreted by E2 with "
        "library models at private_key.sign / decode_dss_signature / load_*_private_key / pycryptodome eddsa",
        "cmd_sign._import_signer -> returns the real ncs Signer; open() -> in-memory files",
    ],
    "outside": [
        "cryptographic validity itself: 'verifies under the public key' is reduced to (bytes signed == Sig_structure of the emitted header and digest) and "
        "(signature stored losslessly at fixed width) plus correctness of cryptography/pycryptodome; a real sign+verify per algorithm runs concretely in "
        "real_crypto_validation",
        "envelopes that are not a tag-107 map with a well-formed authentication wrapper",
    ],
    "assumptions": ["RFC 9052 Sig_structure / COSE_Sign1 layouts as written in vlib/refenc.py"],
}


def obligations(tier):
    obs = [
        Ob("real_crypto_validation", "V", "v_real", {}, 300, "real keys: sign through the CLI, verify with cryptography / pycryptodome over the reference Sig_structure", twin=False, weight=20),
        Ob("sign_envelope", "E1", "h_sign", {"cli": False}, 600, "key id < 2^32, 5 algorithms, 0..2 members, opaque contents: output == input + one reference COSE_Sign1; KMS gets the reference Sig_structure", weight=60),
        Ob("sign_cli", "E1", "h_sign", {"cli": True}, 600, "same through cmd_sign.main with files", weight=60),
        Ob("sign_twice_different_context", "E1", "h_twice", {}, 600, "two CLI signings in ONE process with different KMS contexts/keys/algorithms: each uses a KMS initialised with its own context", weight=30),
        Ob("sign_failure_writes_nothing", "E1", "h_fail", {}, 300, "KMS failure / malformed envelope: exception propagates, no output file", weight=10),
        Ob("ecdsa_fixed_width", "E2", "k_es", {}, 300, "(r,s) in [0,2^bits), bits in {256,384,521}: signature == BE(r,n)||BE(s,n), n = ceil(bits/8)", weight=5),
        Ob("kms_sign_dispatch", "E2", "k_kms", {}, 600, "SuitKMS.sign: 5 key kinds x pem/der x 6 algorithm strings: exact data reaches the primitive with the right hash; mismatches refused", weight=30),
    ]
    return obs


# ------------------------------------------------------------------------------------------------ E1


def _env():
    from vlib import repoenv, stubs

    repoenv.prepare_symbolic()
    import ncs.sign_script as SS
    import suit_generator.cmd_sign as CS

    # the repository's own loaders (_import_signer, init_kms_backend) run for real: the sign script is the real
    # ncs/sign_script.py, the KMS script is the recording KMS of vlib/kms_stub_script.py
    return SS, CS, stubs


def SIGN_SCRIPT():
    import os

    from vlib.repoenv import REPO

    return os.path.join(REPO, "ncs", "sign_script.py")


def KMS_SCRIPT():
    import os

    return os.path.join(os.path.dirname(os.path.dirname(os.path.abspath(__file__))), "vlib", "kms_stub_script.py")


def _build_input(chx, cbormodel, nmembers, signed_blocks=()):
    from vlib.cbormodel import CBORTag

    digest_alg = chx.sym_int("digest_alg", -50, -10)
    digest = chx.sym_bytes("digest", 4)
    manifest = chx.sym_bytes("manifest", 3)
    digest_bstr = cbormodel.plain_dumps([digest_alg, digest])
    wrapper = cbormodel.plain_dumps([digest_bstr] + list(signed_blocks))
    members = {2: wrapper, 3: manifest}
    names = ["second-longer-name.suit", "#a"]  # deliberately not in canonical (length-first) key order
    payloads = []
    for i in range(2):
        if i < nmembers:
            p = chx.sym_bytes(f"payload{i}", 2)
            payloads.append(p)
            members[names[i]] = p
    return CBORTag(107, members), digest_bstr, wrapper, manifest, payloads, names


def h_sign(cli=False, exclude=()):
    SS, CS, stubs = _env()
    from suit_generator.suit_sign_script_base import SignatureAlreadyPresentActions, SuitSignAlgorithms

    from vlib import cbormodel, chx, refenc
    from vlib import registry as R
    from vlib.cbormodel import CBORTag

    fs = stubs.FS()
    CS.open = fs.open

    def harness():
        cbormodel.reset()
        stubs.KMSRecorder.reset()
        kid = chx.sym_int("key_id", 0, 2**32 - 1)
        ai = chx.sym_sel("alg", len(ALGS))
        alg_member, alg_str, cose_name = ALGS[0]
        for i, a in enumerate(ALGS):
            if ai == i:
                alg_member, alg_str, cose_name = a
        nm = chx.sym_int("members", 0, 2)
        sig = chx.sym_bytes("signature", 8)
        stubs.KMSRecorder.SIGNATURES = [sig]
        tag, digest_bstr, wrapper, manifest, payloads, names = _build_input(chx, cbormodel, nm)
        in_bytes = cbormodel.dumps(tag)
        alg = SuitSignAlgorithms[alg_member]
        if cli:
            fs.names, fs.contents, fs.writes = [], [], []
            fs.add("in.suit", in_bytes)
            CS.main(sign_subcommand="single-level", input_envelope="in.suit", output_envelope="out.suit", key_name="the-key", key_id=kid, alg=alg, context="ctx", sign_script=SIGN_SCRIPT(), kms_script=KMS_SCRIPT(), already_signed_action=SignatureAlreadyPresentActions.ERROR)
            out_bytes = fs.written("out.suit")
            ok_io = out_bytes is not None and len([w for w in fs.writes]) == 1
        else:
            env = cbormodel.loads(in_bytes)  # decoded the way cbor2 6 does it (immutable tag content)
            out = SS.Signer().sign_envelope(env, "the-key", kid, alg, "ctx", KMS_SCRIPT(), SignatureAlreadyPresentActions.ERROR)
            out_bytes = cbormodel.plain_dumps(out)
            ok_io = True
        protected = refenc.BW(refenc.M([(1, R.COSE_ALGS[cose_name]), (4, refenc.BW(kid))]))
        block = refenc.BW(CBORTag(18, [protected, {}, None, sig]))
        exp_members = [(2, refenc.BW([digest_bstr, block])), (3, manifest)]
        for i in range(2):
            if i < nm:
                exp_members.append((names[i], payloads[i]))
        expected = cbormodel.plain_dumps(CBORTag(107, refenc.M(exp_members)))
        signs = [e for e in stubs.KMSRecorder.LOG if e[0] == "sign"]
        ok = (
            ok_io
            and out_bytes == expected
            and len(signs) == 1
            and signs[0][1] == refenc.sig_structure(protected, digest_bstr)
            and signs[0][2] == "the-key"
            and signs[0][3] == alg_str
            and signs[0][4] == "ctx"
            and signs[0][5] == "ctx"
        )
        if DEBUG:
            from crosshair.tracers import NoTracing

            a, b = out_bytes == expected, len(signs) == 1 and signs[0][1] == refenc.sig_structure(protected, digest_bstr)
            with NoTracing():
                print("DEBUG", chx.realize(a), chx.realize(b), chx.realize(out_bytes).hex(), chx.realize(expected).hex(), [chx.realize(x) for x in signs[0][2:]] if signs else None)
        return chx.conclude(ok, key_id=kid, alg=ai, members=nm)

    return harness


DEBUG = False


def h_twice(exclude=()):
    """History: loader / signer / KMS state must not leak from one signing into the next."""
    SS, CS, stubs = _env()
    from suit_generator.suit_sign_script_base import SignatureAlreadyPresentActions, SuitSignAlgorithms

    from vlib import cbormodel, chx, refenc
    from vlib import registry as R
    from vlib.cbormodel import CBORTag

    fs = stubs.FS()
    CS.open = fs.open

    def harness():
        cbormodel.reset()
        stubs.KMSRecorder.reset()
        kids = [chx.sym_int("key_id0", 0, 2**32 - 1), chx.sym_int("key_id1", 0, 23)]
        a0 = chx.pick("alg0", ALGS)
        a1 = chx.pick("alg1", ALGS)
        sigs = [chx.sym_bytes("sig0_", 4), chx.sym_bytes("sig1_", 4)]
        stubs.KMSRecorder.SIGNATURES = list(sigs)
        first_skipped = chx.sym_bool("first_is_skipped_presigned")
        ok = True
        for i, (alg_member, alg_str, cose_name) in enumerate((a0, a1)):
            digest = chx.sym_bytes(f"digest{i}_", 3)
            manifest = chx.sym_bytes(f"manifest{i}_", 2)
            digest_bstr = cbormodel.plain_dumps([-16, digest])
            entries = [digest_bstr]
            presigned = i == 0 and first_skipped
            if presigned:
                entries.append(refenc.BW(CBORTag(18, [refenc.BW(refenc.M([(1, -8)])), {}, None, b"OLD"])))
            fs.names, fs.contents, fs.writes = [], [], []
            fs.add("in.suit", cbormodel.dumps(CBORTag(107, {2: cbormodel.plain_dumps(entries), 3: manifest})))
            CS.main(sign_subcommand="single-level", input_envelope="in.suit", output_envelope="out.suit", key_name=f"key{i}", key_id=kids[i], alg=SuitSignAlgorithms[alg_member], context=f"ctx{i}", sign_script=SIGN_SCRIPT(), kms_script=KMS_SCRIPT(), already_signed_action=SignatureAlreadyPresentActions.SKIP)
            out = fs.written("out.suit")
            if presigned:
                exp_entries = entries
            else:
                protected = refenc.BW(refenc.M([(1, R.COSE_ALGS[cose_name]), (4, refenc.BW(kids[i]))]))
                sig = sigs[len([e for e in stubs.KMSRecorder.LOG if e[0] == "sign"]) - 1] if [e for e in stubs.KMSRecorder.LOG if e[0] == "sign"] else b""
                exp_entries = entries + [refenc.BW(CBORTag(18, [protected, {}, None, sig]))]
                last = [e for e in stubs.KMSRecorder.LOG if e[0] == "sign"]
                ok = ok and len(last) >= 1 and last[-1][2] == f"key{i}" and last[-1][3] == alg_str and last[-1][4] == f"ctx{i}" and last[-1][5] == f"ctx{i}" and last[-1][1] == refenc.sig_structure(protected, digest_bstr)
            ok = ok and out == cbormodel.plain_dumps(CBORTag(107, refenc.M([(2, cbormodel.plain_dumps(exp_entries)), (3, manifest)])))
        nsign = len([e for e in stubs.KMSRecorder.LOG if e[0] == "sign"])
        ok = ok and nsign == (1 if first_skipped else 2)
        return chx.conclude(ok, first_is_skipped_presigned=first_skipped)

    return harness


def h_fail(exclude=()):
    SS, CS, stubs = _env()
    from suit_generator.suit_sign_script_base import SignatureAlreadyPresentActions, SuitSignAlgorithms

    from vlib import cbormodel, chx

    fs = stubs.FS()
    CS.open = fs.open

    def harness():
        cbormodel.reset()
        stubs.KMSRecorder.reset()
        kid = chx.sym_int("key_id", 0, 2**32 - 1)
        mode = chx.sym_sel("mode", 3)
        stubs.KMSRecorder.SIGNATURES = [b"\x00" * 8]
        tag, digest_bstr, wrapper, manifest, payloads, names = _build_input(chx, cbormodel, 1)
        if mode == 0:
            stubs.KMSRecorder.FAIL = ValueError("key not compatible")
            data = cbormodel.dumps(tag)
        elif mode == 1:
            data = cbormodel.dumps(cbormodel.CBORTag(107, {3: manifest}))  # no authentication wrapper
        else:
            data = cbormodel.dumps(cbormodel.CBORTag(107, {2: cbormodel.plain_dumps(7), 3: manifest}))  # wrapper is not an array
        fs.names, fs.contents, fs.writes = [], [], []
        fs.add("in.suit", data)
        try:
            CS.main(sign_subcommand="single-level", input_envelope="in.suit", output_envelope="out.suit", key_name="k", key_id=kid, alg=SuitSignAlgorithms.EdDSA, context=None, sign_script=SIGN_SCRIPT(), kms_script=KMS_SCRIPT(), already_signed_action=SignatureAlreadyPresentActions.ERROR)
            ok = False
        except Exception:
            ok = len(fs.writes) == 0
        return chx.conclude(ok, key_id=kid, mode=mode)

    return harness


# ------------------------------------------------------------------------------------------------ E2: basic_kms


def _kms_mod():
    from vlib import repoenv

    repoenv.add_repo_to_path()
    import ncs.basic_kms as BK

    return BK


class _FakeKeyBase:
    pass


def _fake_key_classes(BK):
    """Classes that pass basic_kms's isinstance checks (ABC registration) without being real keys."""
    from vlib.kernsym import _Recorder as _FakeKeyBase  # accepts symbolic arguments

    class FakeEC(_FakeKeyBase):
        def __init__(self, bits, log):
            self.key_size = bits
            self.log = log

        def sign(self, data, algo):
            self.log.append(("ec_sign", self.key_size, data, type(algo).__name__, type(algo.algorithm).__name__))
            return ("DSS", len(self.log))

    class FakeEd25519(_FakeKeyBase):
        def __init__(self, log):
            self.log = log

        def sign(self, data):
            self.log.append(("ed_sign", "ed25519", data))
            from vlib.ksvalues import Rope, Seg

            return Rope([Seg("opaque", ("edsig", len(self.log)), 64)])

    class FakeEd448(_FakeKeyBase):
        def __init__(self, log):
            self.log = log

        def sign(self, data):
            self.log.append(("ed_sign", "ed448", data))
            from vlib.ksvalues import Rope, Seg

            return Rope([Seg("opaque", ("edsig", len(self.log)), 114)])

    BK.EllipticCurvePrivateKey.register(FakeEC)
    BK.Ed25519PrivateKey.register(FakeEd25519)
    BK.Ed448PrivateKey.register(FakeEd448)
    return FakeEC, FakeEd25519, FakeEd448


def k_es(exclude=()):
    import time

    import z3

    from vlib import kernsym as K
    from vlib.ksvalues import Obj, Rope, Seg, SInt
    from vlib.repoenv import REPO

    BK = _kms_mod()
    t0 = time.time()
    FakeEC, _, _ = _fake_key_classes(BK)
    vpp, samples, enc = [], [], set()
    allpaths = []
    for bits in (256, 384, 521):
        r, s = z3.Int(f"r{bits}"), z3.Int(f"s{bits}")
        log = []

        def run(ctx, bits=bits, r=r, s=s, log=log):
            del log[:]
            models = dict(K.BASE_MODELS)
            models[BK.decode_dss_signature] = lambda it, args, kwargs: (SInt(r), SInt(s))
            it = K.Interp(ctx, [REPO], models=models)
            o = Obj(BK.SuitKMS)
            out = it.call_function(BK.SuitKMS._create_cose_es_signature, [o, Rope([Seg("opaque", "DATA", z3.Int("dlen"))]), FakeEC(bits, log)], {}, BK.SuitKMS)
            enc.update(it.encoded)
            ctx.log.extend(log)
            return out

        paths = K.explore(run, [r >= 0, r < 2**bits, s >= 0, s < 2**bits, z3.Int("dlen") >= 0])
        allpaths += paths
        n = (bits + 7) // 8
        hashname = {256: "SHA256", 384: "SHA384", 521: "SHA512"}[bits]
        for p in paths:
            if p.outcome != "ret":
                vpp.append((p, [(f"no exception for any (r,s) below 2^{bits} ({type(p.value).__name__})", z3.BoolVal(False))]))
                continue
            segs = list(Rope.of(p.value).segs)
            ok = len(segs) == 2 and all(sg.kind == "int" and sg.c == "big" and sg.b == n for sg in segs)
            vcs = [(f"signature is two {n}-byte big-endian fields", z3.BoolVal(ok))]
            if ok:
                vcs.append(("first field is r", segs[0].a == r))
                vcs.append(("second field is s", segs[1].a == s))
            sg = [e for e in p.log if e[0] == "ec_sign"]
            vcs.append(("exactly the given data is signed with ECDSA over " + hashname, z3.BoolVal(len(sg) == 1 and isinstance(sg[0][2], Rope) and sg[0][2].segs[0].a == "DATA" and sg[0][3] == "ECDSA" and sg[0][4] == hashname)))
            vpp.append((p, vcs))
            samples.append(f"bits={bits}: {p.value!r}"[:160])
    from props.c10 import _finish

    res = _finish(K, vpp, allpaths, t0, samples, lambda p, m: {"note": "structural"})
    res["functions"] = sorted(enc)
    if res["verdict"] == "CONFIRMED" and len([p for p in allpaths if p.outcome == "ret"]) < 3:
        res["verdict"] = "VACUOUS"
    return res


KEY_KINDS = [("ec", 256), ("ec", 384), ("ec", 521), ("ed25519", 0), ("ed448", 0)]
ALG_STRINGS = ["es-256", "es-384", "es-521", "eddsa", "hash-eddsa", "rsa-pss"]


def k_kms(exclude=()):
    """SuitKMS.sign with every key kind / file suffix / algorithm string; library modelled at the primitive seam."""
    import pathlib
    import time

    import z3

    from vlib import kernsym as K
    from vlib import ksmodels as KM
    from vlib.ksvalues import EnumVal, Obj, Rope, Seg, SInt
    from vlib.repoenv import REPO

    BK = _kms_mod()
    t0 = time.time()
    FakeEC, FakeEd25519, FakeEd448 = _fake_key_classes(BK)
    vpp, samples, enc, allpaths = [], [], set(), []
    sel = z3.Int("alg")
    for kind, bits in KEY_KINDS:
        for suffix in ("pem", "der", None):
            log = []

            def run(ctx, kind=kind, bits=bits, suffix=suffix, log=log):
                del log[:]
                ctx.assume(z3.And(sel >= 0, sel < len(ALG_STRINGS)))
                files = {}
                if suffix:
                    files[f"/keys/mykey.{suffix}"] = Rope([Seg("opaque", "KEYFILE", 200)])
                fs = KM.KFS(ctx, files)
                models = dict(K.BASE_MODELS)
                models[open] = fs.model_open
                models[pathlib.Path.is_file] = lambda it, args, kwargs: str(args[0]) in files

                def loader_model(which):
                    def m(it, args, kwargs):
                        ok = isinstance(args[0], Rope) and args[0].segs[0].a == "KEYFILE"
                        log.append(("load", which, ok, args[1] if len(args) > 1 else kwargs.get("password", "missing")))
                        if kind == "ec":
                            return FakeEC(bits, log)
                        return FakeEd25519(log) if kind == "ed25519" else FakeEd448(log)

                    return m

                models[BK.load_pem_private_key] = loader_model("pem")
                models[BK.load_der_private_key] = loader_model("der")
                models[BK.decode_dss_signature] = lambda it, args, kwargs: (SInt(z3.IntVal(5)), SInt(z3.IntVal(9)))

                def sha512_new(it, args, kwargs):
                    log.append(("prehash", args[0]))
                    return ("PREHASH", args[0])

                models[BK.SHA512.new] = sha512_new

                def ecc_import(it, args, kwargs):
                    log.append(("ecc_import", args[0]))
                    return ("ECCKEY", args[0])

                models[BK.ECC.import_key] = ecc_import

                class EdSigner(K._Recorder):
                    def __init__(self, key, mode):
                        self.key, self.mode = key, mode

                    def sign(self, h):
                        log.append(("eddsa_sign", self.key, self.mode, h))
                        return Rope([Seg("opaque", ("phsig",), 64)])

                models[BK.eddsa.new] = lambda it, args, kwargs: EdSigner(args[0], args[1] if len(args) > 1 else kwargs.get("mode"))
                it = K.Interp(ctx, [REPO], models=models)
                o = Obj(BK.SuitKMS)
                o._attrs["keys_directory"] = pathlib.Path("/keys")
                out = it.call_function(BK.SuitKMS.sign, [o, Rope([Seg("opaque", "DATA", z3.Int("dlen"))]), "mykey", EnumVal(sel, ALG_STRINGS), None], {}, BK.SuitKMS)
                enc.update(it.encoded)
                ctx.log.extend(log)
                return out

            paths = K.explore(run, [z3.Int("dlen") >= 0])
            allpaths += paths
            for p in paths:
                if kind == "ec":
                    compatible = sel == {256: 0, 384: 1, 521: 2}[bits]
                else:
                    compatible = z3.Or(sel == 3, sel == 4)
                is_data = lambda x: isinstance(x, Rope) and len(x.segs) == 1 and x.segs[0].a == "DATA"  # noqa
                if p.outcome == "raise":
                    vcs = [("refusal is a ValueError", z3.BoolVal(isinstance(p.value, ValueError))), ("nothing was signed on refusal", z3.BoolVal(not any(e[0] in ("ec_sign", "ed_sign", "eddsa_sign") for e in p.log)))]
                    if suffix is None:
                        vcs.append(("missing key file", z3.BoolVal(True)))
                    else:
                        vcs.append(("refused only when key type and algorithm do not match", z3.Not(compatible)))
                    vpp.append((p, vcs))
                    samples.append(f"{kind}{bits or ''}.{suffix}: raise {type(p.value).__name__}")
                    continue
                vcs = [("signed only when key type matches the algorithm", compatible), ("key file exists", z3.BoolVal(suffix is not None))]
                loads = [e for e in p.log if e[0] == "load"]
                vcs.append(("key loaded from the named file with the matching loader, no password", z3.BoolVal(len(loads) == 1 and loads[0][1] == suffix and loads[0][2] and loads[0][3] is None)))
                if kind == "ec":
                    sg = [e for e in p.log if e[0] == "ec_sign"]
                    vcs.append(("ECDSA over exactly the given data", z3.BoolVal(len(sg) == 1 and is_data(sg[0][2]))))
                    segs = Rope.of(p.value).segs
                    n = (bits + 7) // 8
                    vcs.append(("fixed-width r||s returned", z3.BoolVal(len(segs) == 2 and all(s_.kind == "int" and s_.b == n for s_ in segs))))
                else:
                    pre = [e for e in p.log if e[0] == "eddsa_sign"]
                    pure = [e for e in p.log if e[0] == "ed_sign"]
                    hashed_path = len(pre) == 1
                    if hashed_path:
                        ph = [e for e in p.log if e[0] == "prehash"]
                        imp = [e for e in p.log if e[0] == "ecc_import"]
                        okp = len(ph) == 1 and is_data(ph[0][1]) and pre[0][2] == "rfc8032" and pre[0][3] == ("PREHASH", ph[0][1]) and len(imp) == 1 and isinstance(imp[0][1], Rope) and imp[0][1].segs[0].a == "KEYFILE" and not pure
                        vcs.append(("hash-eddsa: SHA-512 prehash of exactly the data, rfc8032 mode, key from the same file", z3.BoolVal(okp)))
                        vcs.append(("prehashed signing only for hash-eddsa", sel == 4))
                    else:
                        vcs.append(("pure EdDSA over exactly the given data", z3.BoolVal(len(pure) == 1 and is_data(pure[0][2]))))
                        vcs.append(("pure signing only for eddsa", sel == 3))
                    segs = Rope.of(p.value).segs
                    vcs.append(("primitive's signature returned unchanged", z3.BoolVal(len(segs) == 1 and segs[0].kind == "opaque")))
                vpp.append((p, vcs))
                samples.append(f"{kind}{bits or ''}.{suffix}: ret")
    from props.c10 import _finish

    res = _finish(K, vpp, allpaths, t0, samples, lambda p, m: {"alg": ALG_STRINGS[m.eval(sel, model_completion=True).as_long()] if m is not None else "?"})
    res["functions"] = sorted(enc)
    nret = len([p for p in allpaths if p.outcome == "ret"])
    if res["verdict"] == "CONFIRMED" and nret < 14:
        res["verdict"] = "VACUOUS"
        res["message"] = f"only {nret} returning paths"
    return res


# ------------------------------------------------------------------------------------------------ concrete oracle, validation, replay


def _make_keys(d):
    from cryptography.hazmat.primitives import serialization as ser
    from cryptography.hazmat.primitives.asymmetric import ec, ed25519

    keys = {}
    for name, k in (("es-256", ec.generate_private_key(ec.SECP256R1())), ("es-384", ec.generate_private_key(ec.SECP384R1())), ("es-521", ec.generate_private_key(ec.SECP521R1())), ("eddsa", ed25519.Ed25519PrivateKey.generate())):
        open(os.path.join(d, f"key_{name}.pem"), "wb").write(k.private_bytes(ser.Encoding.PEM, ser.PrivateFormat.PKCS8, ser.NoEncryption()))
        keys[name] = k
    keys["hash-eddsa"] = keys["eddsa"]
    import shutil

    shutil.copy(os.path.join(d, "key_eddsa.pem"), os.path.join(d, "key_hash-eddsa.pem"))
    return keys


def verify_signed(in_bytes, out_bytes, alg_str, cose_name, kid, pub):
    """Independent COSE verifier.  None if the output is the input plus exactly one valid block, else text."""
    import cbor2
    from cryptography.hazmat.primitives import hashes
    from cryptography.hazmat.primitives.asymmetric import ec
    from cryptography.hazmat.primitives.asymmetric.utils import encode_dss_signature

    from vlib import refenc
    from vlib import registry as R

    a, b = cbor2.loads(in_bytes), cbor2.loads(out_bytes)
    if b.tag != 107 or list(a.value.keys()) != list(b.value.keys()):
        return "member set/order changed"
    for k in a.value:
        if k != 2 and a.value[k] != b.value[k]:
            return f"member {k!r} changed"
    wa, wb = cbor2.loads(a.value[2]), cbor2.loads(b.value[2])
    if list(wb[: len(wa)]) != list(wa) or len(wb) != len(wa) + 1:
        return "wrapper is not the input wrapper plus one block"
    blk = cbor2.loads(wb[-1])
    if not isinstance(blk, cbor2.CBORTag) or blk.tag != 18 or len(blk.value) != 4:
        return "new block is not a tag-18 COSE_Sign1"
    prot, unprot, payload, sig = blk.value
    if cbor2.loads(prot) != {1: R.COSE_ALGS[cose_name], 4: cbor2.dumps(kid)} or prot != cbor2.dumps({1: R.COSE_ALGS[cose_name], 4: cbor2.dumps(kid)}):
        return "protected header is not {1: alg, 4: bstr(cbor(key id))}"
    if dict(unprot) != {} or payload is not None:
        return "unprotected header / payload"
    tbs = refenc.sig_structure(prot, wa[0])
    try:
        if alg_str.startswith("es-"):
            n = {"es-256": 32, "es-384": 48, "es-521": 66}[alg_str]
            if len(sig) != 2 * n:
                return f"ECDSA signature has {len(sig)} bytes, expected {2 * n}"
            h = {"es-256": hashes.SHA256(), "es-384": hashes.SHA384(), "es-521": hashes.SHA512()}[alg_str]
            pub.verify(encode_dss_signature(int.from_bytes(sig[:n], "big"), int.from_bytes(sig[n:], "big")), tbs, ec.ECDSA(h))
        elif alg_str == "eddsa":
            pub.verify(sig, tbs)
        else:
            from Crypto.Hash import SHA512
            from Crypto.PublicKey import ECC
            from Crypto.Signature import eddsa
            from cryptography.hazmat.primitives import serialization as ser

            k = ECC.import_key(pub.public_bytes(ser.Encoding.PEM, ser.PublicFormat.SubjectPublicKeyInfo))
            eddsa.new(k, "rfc8032").verify(SHA512.new(tbs), sig)
    except Exception as e:  # noqa
        return f"signature does not verify: {type(e).__name__}"
    return None


def _sample_envelope(nmembers=1):
    import cbor2
    import hashlib

    manifest = cbor2.dumps({1: 1, 2: 7})
    digest = cbor2.dumps([-16, hashlib.sha256(cbor2.dumps(manifest)).digest()])
    members = {2: cbor2.dumps([digest]), 3: manifest}
    for i in range(nmembers):
        members[["second-longer-name.suit", "#a"][i]] = bytes([i + 1]) * 5
    return cbor2.dumps(cbor2.CBORTag(107, members))


def _real_sign(CS, d, in_bytes, alg_member, alg_str, kid, action="ERROR", library=False):
    from vlib.repoenv import REPO
    from suit_generator.suit_sign_script_base import SignatureAlreadyPresentActions, SuitSignAlgorithms

    fin, fout = os.path.join(d, "in.suit"), os.path.join(d, "out.suit")
    open(fin, "wb").write(in_bytes)
    if os.path.exists(fout):
        os.remove(fout)
    import builtins

    WRITES[:] = []

    def counting_open(name, mode="r", *a, **kw):
        if ("w" in mode or "a" in mode) and os.path.abspath(str(name)) == os.path.abspath(fout):
            WRITES.append(mode)
        return builtins.open(name, mode, *a, **kw)

    CS.open = counting_open
    try:
        if library:
            import cbor2

            import ncs.sign_script as SS

            out = SS.Signer().sign_envelope(cbor2.loads(in_bytes), f"key_{alg_str}", kid, SuitSignAlgorithms[alg_member], d, os.path.join(REPO, "ncs", "basic_kms.py"), SignatureAlreadyPresentActions[action])
            return cbor2.dumps(out)
        CS.main(sign_subcommand="single-level", input_envelope=fin, output_envelope=fout, key_name=f"key_{alg_str}", key_id=kid, alg=SuitSignAlgorithms[alg_member], context=d, sign_script=os.path.join(REPO, "ncs", "sign_script.py"), kms_script=os.path.join(REPO, "ncs", "basic_kms.py"), already_signed_action=SignatureAlreadyPresentActions[action])
    finally:
        del CS.open
    return open(fout, "rb").read()


WRITES = []


def v_real():
    """Real keys, real CLI path, independent verifier: wiring of the stub seams (observation; never decides)."""
    from vlib import repoenv

    repoenv.prepare_concrete()
    import suit_generator.cmd_sign as CS

    n = 0
    notes = []
    d = tempfile.mkdtemp(prefix="verif-c04-")
    try:
        keys = _make_keys(d)
        for alg_member, alg_str, cose_name in ALGS:
            for kid in (0, 23, 24, 0x7FFFFFE0):
                inb = _sample_envelope(1)
                try:
                    outb = _real_sign(CS, d, inb, alg_member, alg_str, kid)
                    r = verify_signed(inb, outb, alg_str, cose_name, kid, keys[alg_str].public_key())
                except Exception as e:  # noqa
                    r = f"raises {type(e).__name__}: {e}"
                n += 1
                if r:
                    notes.append((alg_str, kid, r))
    finally:
        import shutil

        shutil.rmtree(d, ignore_errors=True)
    return dict(verdict="CONFIRMED", paths=n, validated=n - len(notes), observations=notes[:5], message=("real sign+verify observations: " + repr(notes[:3])) if notes else "")


def replay(obligation, params, cex):
    import suit_generator.cmd_sign as CS

    d = tempfile.mkdtemp(prefix="verif-c04r-")
    try:
        keys = _make_keys(d)
        if obligation in ("sign_envelope", "sign_cli"):
            alg_member, alg_str, cose_name = ALGS[cex.get("alg", 0)]
            kid = cex.get("key_id", 0)
            inb = _sample_envelope(cex.get("members", 0))
            try:
                outb = _real_sign(CS, d, inb, alg_member, alg_str, kid, library=(obligation == "sign_envelope"))
                if obligation == "sign_cli" and len(WRITES) != 1:
                    return dict(reproduced=True, detail=f"output file opened for writing {len(WRITES)} times (must be written once, after signing)")
            except Exception as e:  # noqa
                return dict(reproduced=True, detail=f"signing a valid unsigned envelope raises {type(e).__name__}: {e}", finding="F1" if type(e).__name__ in ("TypeError", "AttributeError") else None)
            r = verify_signed(inb, outb, alg_str, cose_name, kid, keys[alg_str].public_key())
            return dict(reproduced=r is not None, detail=r or "output verifies")
        if obligation == "sign_twice_different_context":
            # two signings in one process, each with its own key directory holding a key file of the SAME name
            import shutil

            from cryptography.hazmat.primitives import serialization as ser
            from cryptography.hazmat.primitives.asymmetric import ed25519

            from suit_generator.suit_sign_script_base import SignatureAlreadyPresentActions, SuitSignAlgorithms
            from vlib.repoenv import REPO

            pubs = []
            for i in range(2):
                kd = os.path.join(d, f"keys{i}")
                os.makedirs(kd)
                k = ed25519.Ed25519PrivateKey.generate()
                open(os.path.join(kd, "samename.pem"), "wb").write(k.private_bytes(ser.Encoding.PEM, ser.PrivateFormat.PKCS8, ser.NoEncryption()))
                pubs.append(k.public_key())
            inb0 = _sample_envelope(1)
            if cex.get("first_is_skipped_presigned"):
                shutil.copy(os.path.join(d, "key_eddsa.pem"), os.path.join(d, "keys0", "pre.pem"))
            for i in range(2):
                fin, fout = os.path.join(d, f"in{i}.suit"), os.path.join(d, f"out{i}.suit")
                inb = _sample_envelope(i)
                action = SignatureAlreadyPresentActions.SKIP
                if i == 0 and cex.get("first_is_skipped_presigned"):
                    open(fin, "wb").write(inb)
                    CS.main(sign_subcommand="single-level", input_envelope=fin, output_envelope=fin, key_name="pre", key_id=1, alg=SuitSignAlgorithms.EdDSA, context=os.path.join(d, "keys0"), sign_script=os.path.join(REPO, "ncs", "sign_script.py"), kms_script=os.path.join(REPO, "ncs", "basic_kms.py"), already_signed_action=action)
                    inb = open(fin, "rb").read()
                open(fin, "wb").write(inb)
                try:
                    CS.main(sign_subcommand="single-level", input_envelope=fin, output_envelope=fout, key_name="samename", key_id=7 + i, alg=SuitSignAlgorithms.EdDSA, context=os.path.join(d, f"keys{i}"), sign_script=os.path.join(REPO, "ncs", "sign_script.py"), kms_script=os.path.join(REPO, "ncs", "basic_kms.py"), already_signed_action=action)
                except Exception as e:  # noqa
                    return dict(reproduced=True, detail=f"signing #{i} raises {type(e).__name__}: {e}")
                outb = open(fout, "rb").read()
                if i == 0 and cex.get("first_is_skipped_presigned"):
                    if outb != inb:
                        return dict(reproduced=True, detail="skip changed the envelope")
                    continue
                r = verify_signed(inb, outb, "eddsa", "cose-alg-eddsa", 7 + i, pubs[i])
                if r:
                    return dict(reproduced=True, detail=f"signing #{i} (own key directory keys{i}): {r}")
            return dict(reproduced=False, detail="each signing used its own key directory")
        if obligation == "sign_failure_writes_nothing":
            import cbor2

            mode = cex.get("mode", 0)
            inb = _sample_envelope(1)
            alg = ALGS[3]
            if mode == 0:
                alg = ALGS[0]  # es-256 requested with an Ed25519 key file
                import shutil

                shutil.copy(os.path.join(d, "key_eddsa.pem"), os.path.join(d, "key_es-256.pem"))
            elif mode == 1:
                inb = cbor2.dumps(cbor2.CBORTag(107, {3: b"\x01"}))
            else:
                inb = cbor2.dumps(cbor2.CBORTag(107, {2: cbor2.dumps(7), 3: b"\x01"}))
            try:
                _real_sign(CS, d, inb, alg[0], alg[1], cex.get("key_id", 0))
                return dict(reproduced=True, detail="no error")
            except Exception as e:  # noqa
                left = os.path.exists(os.path.join(d, "out.suit"))
                return dict(reproduced=left, detail=f"{type(e).__name__}; output exists: {left}")
        if obligation in ("ecdsa_fixed_width", "kms_sign_dispatch"):
            # structural obligations over library seams: reproduce through repeated real signing (short r or s has
            # probability 2^-7 per signature) and key/algorithm mismatch
            from cryptography.hazmat.primitives import hashes
            from cryptography.hazmat.primitives.asymmetric import ec
            from cryptography.hazmat.primitives.asymmetric.utils import encode_dss_signature

            import ncs.basic_kms as BK

            kms = BK.SuitKMS()
            kms.init_kms(d)
            bad = None
            for alg_str, n, h in (("es-256", 32, hashes.SHA256()), ("es-384", 48, hashes.SHA384()), ("es-521", 66, hashes.SHA512())):
                for i in range(700):
                    data = b"msg-%d" % i
                    try:
                        sig = kms.sign(data, f"key_{alg_str}", alg_str, None)
                        if len(sig) != 2 * n:
                            bad = f"{alg_str}: signature of {len(sig)} bytes"
                            break
                        keys[alg_str].public_key().verify(encode_dss_signature(int.from_bytes(sig[:n], "big"), int.from_bytes(sig[n:], "big")), data, ec.ECDSA(h))
                    except Exception as e:  # noqa
                        bad = f"{alg_str}: {type(e).__name__}: {e}"
                        break
                if bad:
                    break
            if not bad:
                for key_alg, req in (("eddsa", "es-256"), ("es-256", "eddsa"), ("es-256", "es-384"), ("es-384", "hash-eddsa")):
                    import shutil

                    shutil.copy(os.path.join(d, f"key_{key_alg}.pem"), os.path.join(d, "mismatch.pem"))
                    try:
                        kms.sign(b"x", "mismatch", req, None)
                        bad = f"{key_alg} key accepted for {req}"
                    except ValueError:
                        pass
                    except Exception as e:  # noqa
                        bad = f"mismatch raises {type(e).__name__}"
                for alg_str in ("eddsa", "hash-eddsa"):
                    if bad:
                        break
                    try:
                        sig = kms.sign(b"payload", f"key_{alg_str}", alg_str, None)
                        if alg_str == "eddsa":
                            keys["eddsa"].public_key().verify(sig, b"payload")
                        else:
                            from Crypto.Hash import SHA512
                            from Crypto.PublicKey import ECC
                            from Crypto.Signature import eddsa
                            from cryptography.hazmat.primitives import serialization as ser

                            k = ECC.import_key(keys["eddsa"].public_key().public_bytes(ser.Encoding.PEM, ser.PublicFormat.SubjectPublicKeyInfo))
                            eddsa.new(k, "rfc8032").verify(SHA512.new(b"payload"), sig)
                    except Exception as e:  # noqa
                        bad = f"{alg_str}: {type(e).__name__}: {e}"
            return dict(reproduced=bad is not None, detail=bad or "real KMS behaves per the property on 2100 signatures and 4 mismatches")
        return dict(reproduced=None, detail="unknown obligation")
    finally:
        import shutil

        shutil.rmtree(d, ignore_errors=True)
