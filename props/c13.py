"""C13 - vendor/class UUIDs are derived identically everywhere (manifest.py, cmd_mpi.py, cmd_image.py, configuration.py)."""
from __future__ import annotations

import os
import tempfile
import uuid as real_uuid

from vlib.ob import Ob

PROPERTY = "C13"

META = {
    "files": ["suit_generator/suit/manifest.py", "suit_generator/cmd_mpi.py", "suit_generator/cmd_image.py", "build_configuration/configuration.py"],
    "functions": [
        "suit_generator.suit.manifest.SuitUUID.from_obj",
        "suit_generator.cmd_mpi.MpiGenerator.generate (uuid part)",
        "suit_generator.cmd_image.EnvelopeStorage.__init__/assign_role/_find_role/_find_slot/_get_role_assignments_from_kconfig",
        "build_configuration.configuration.BuildConfiguration.__init__/_parse",
    ],
    "bounds": "vendor and class names: any strings of 0..3 symbolic characters (any code points; the code never inspects them); build "
    "configuration: presence of each of the three configurable roles symbolic, vendor/class values symbolic strings <= 2 chars; "
    "Kconfig line parsing: solver-chosen element of 18 concrete representative values (CrossHair's regex model is imprecise on symbolic lines)",
    "stubs": [
        "uuid.uuid5 -> congruent uninterpreted token (equal argument trees => same token, decided by symbolic ==; distinct trees => distinct 16-byte values)",
        "intelhex.IntelHex -> recording stub; open() -> in-memory file system",
        "BuildConfiguration replaced by a dict carrying symbolic values in h_kconfig (its own parser is decided in h_parse)",
    ],
    "outside": ["SHA-1 inside uuid5 (library); validated concretely that the three real sites agree with uuid.uuid5 on sample names", "names longer than the symbolic bound (the code is oblivious to content)"],
    "assumptions": ["uuid5 is a function of (namespace, name) without collisions on the names used"],
}


def obligations(tier):
    return [
        Ob("site_validation", "V", "v_sites", {}, 120, "real uuid5 through the three real sites on sample names (wiring of the stub seam)", twin=False, weight=3),
        Ob("three_sites_agree", "E1", "h_sites", {}, 300, "vendor, class: any strings <= 3 chars; manifest / MPI record / storage role map use U(U(DNS,v),c) and U(DNS,v)", weight=30),
        Ob("name_only_and_raw_forms", "E1", "h_forms", {}, 300, "name-only form is U(DNS,name); raw form passes 16 bytes through; malformed forms rejected", weight=10),
        Ob("kconfig_assignments", "E1", "h_kconfig", {}, 600, "3 configurable roles present/absent, values symbolic <= 2 chars: exact pairs per role; duplicates rejected; lookup by class id", weight=60),
        Ob("kconfig_line_parser", "E1", "h_parse", {}, 600, "NAME=\"<value>\" lines, value a solver-chosen element of 18 representatives x 3 file layouts", weight=40),
    ]


def _env():
    from vlib import repoenv, stubs

    repoenv.prepare_symbolic()
    import suit_generator.cmd_image as CI
    import suit_generator.cmd_mpi as MP
    import suit_generator.suit.manifest as MF

    proxy = stubs.UuidProxy(real_uuid)
    MF.uuid = proxy
    MP.uuid = proxy
    CI.uuid = proxy
    MP.IntelHex = stubs.HexRecorder
    CI.IntelHex = stubs.HexRecorder
    return CI, MP, MF, stubs, proxy


def h_sites(exclude=()):
    CI, MP, MF, stubs, proxy = _env()
    from vlib import cbormodel, chx

    roles = list(CI.ManifestRole)

    def harness():
        cbormodel.reset()
        stubs.UuidProxy.LOG = []
        stubs.HexRecorder.LOG = []
        v = chx.sym_str("vendor", 3)
        c = chx.sym_str("klass", 3)
        # 1. manifest description forms
        cid_m = MF.SuitUUID.from_obj({"RFC4122_UUID": {"namespace": v, "name": c}}).to_obj()["raw"]
        vid_m = MF.SuitUUID.from_obj({"RFC4122_UUID": v}).to_obj()["raw"]
        # 2. MPI record
        MP.MpiGenerator.generate("o.hex", v, c, 0x1000, 48, False, False, None)
        w = [e for e in stubs.HexRecorder.LOG if e[0] == "write"]
        rec = w[0][2][0][1]
        # 3. storage role map
        st = CI.EnvelopeStorageNrf54h20(0, load_defaults=False)
        st.assign_role(v, c, roles[5])
        entries = list(st._assignments.values())
        log = stubs.UuidProxy.LOG
        ok = (
            len(log) == 2
            and log[0].tree() == ("u5", ("ns", str(real_uuid.NAMESPACE_DNS)), v)
            and log[1].ns is log[0]
            and log[1].name == c
            and cid_m == log[1].bytes.hex()
            and vid_m == log[0].bytes.hex()
            and len(w) == 1
            and rec[16:32] == log[0].bytes
            and rec[32:48] == log[1].bytes
            and len(entries) == 1
            and entries[0]["class_id"] == log[1].bytes
            and entries[0]["vendor_id"] == log[0].bytes
            and st._find_role(log[1].bytes) == roles[5]
            and st._find_role(log[0].bytes) is None
        )
        return chx.conclude(ok, vendor=v, klass=c)

    return harness


def h_forms(exclude=()):
    CI, MP, MF, stubs, proxy = _env()
    from vlib import cbormodel, chx

    def harness():
        cbormodel.reset()
        stubs.UuidProxy.LOG = []
        name = chx.sym_str("name", 3)
        form = chx.sym_sel("form", 6)
        raw = chx.sym_bytes("raw", 16)
        ok = True
        if form == 0:
            out = MF.SuitUUID.from_obj({"RFC4122_UUID": name}).to_cbor()
            log = stubs.UuidProxy.LOG
            ok = len(log) == 1 and log[0].tree() == ("u5", ("ns", str(real_uuid.NAMESPACE_DNS)), name) and out == b"\x50" + log[0].bytes
        elif form == 1:
            out = MF.SuitUUID.from_obj({"RFC4122_UUID": {"name": name}}).to_cbor()
            log = stubs.UuidProxy.LOG
            ok = len(log) == 1 and log[0].tree() == ("u5", ("ns", str(real_uuid.NAMESPACE_DNS)), name) and out == b"\x50" + log[0].bytes
        elif form == 2:
            o = MF.SuitUUID(raw)
            ok = o.to_cbor() == b"\x50" + raw and MF.SuitUUID.from_cbor(raw).value == raw and len(stubs.UuidProxy.LOG) == 0
        else:
            bad = [{"RFC4122_UUID": {"namespace": name}}, {"uuid": name}, name][form - 3]
            try:
                MF.SuitUUID.from_obj(bad)
                ok = False
            except ValueError:
                ok = len(stubs.UuidProxy.LOG) == 0
        return chx.conclude(ok, name=name, form=form, raw=raw)

    return harness


PARSE_REPRESENTATIVES = ["", "a", "nordicsemi.com", "nRF54H20_sample_root", "é", "with space", "x=y", "0x1F", "y", "42", "#c", "a'b", "tab\there", " lead", "trail ", "in\"ner", "\"", "\"\"x"]
CONFIGURABLE = [("ROOT", "APP_ROOT"), ("APP_LOCAL_1", "APP_LOCAL_1"), ("RAD_LOCAL_1", "RAD_LOCAL_1")]


def h_kconfig(exclude=()):
    CI, MP, MF, stubs, proxy = _env()
    from vlib import cbormodel, chx
    from suit_generator.exceptions import GeneratorError

    class FakeConfig(dict):
        CURRENT = None

        def __init__(self, input_file=".config"):
            dict.__init__(self)
            for k, v in FakeConfig.CURRENT:
                dict.__setitem__(self, k, v)

    CI.BuildConfiguration = FakeConfig

    def harness():
        cbormodel.reset()
        stubs.UuidProxy.LOG = []
        items = [("SB_CONFIG_SUIT_ENVELOPE", True)]
        present = []
        vals = []
        for i, (m, role) in enumerate(CONFIGURABLE):
            p = chx.sym_bool(f"present{i}")
            v = chx.sym_str(f"v{i}", 2)
            c = chx.sym_str(f"c{i}", 2)
            vals.append((v, c))
            if p:
                present.append(i)
                items.append((f"SB_CONFIG_SUIT_MPI_{m}_VENDOR_NAME", v))
                items.append((f"SB_CONFIG_SUIT_MPI_{m}_CLASS_NAME", c))
                items.append((f"SB_CONFIG_SUIT_MPI_{m}_OTHER", 7))
        FakeConfig.CURRENT = items
        dup = False
        for a in present:
            for b in present:
                if a < b and vals[a][0] == vals[b][0] and vals[a][1] == vals[b][1]:
                    dup = True
        try:
            st = CI.EnvelopeStorageNrf54h20(0x1000, load_defaults=False, kconfig="k.config")
            raised = False
        except GeneratorError:
            raised = True
        if dup:
            ok = raised
        elif raised:
            ok = False
        else:
            ok = len(st._assignments) == len(present)
            for i in present:
                v, c = vals[i]
                vid = proxy.uuid5(real_uuid.NAMESPACE_DNS, v)
                cid = proxy.uuid5(vid, c)
                ok = ok and st._find_role(cid.bytes) == CI.ManifestRole[CONFIGURABLE[i][1]]
                slot = st._find_slot(cid.bytes)
                exp = [e for e in st._LAYOUT if e["role"] == CI.ManifestRole[CONFIGURABLE[i][1]]][0]
                ok = ok and slot == (exp["offset"], exp["size"])
        return chx.conclude(ok, present=present, vals=vals)

    return harness


def h_parse(exclude=()):
    from vlib import repoenv, stubs

    repoenv.prepare_symbolic()
    import build_configuration.configuration as BC

    from vlib import chx

    fs = stubs.FS()
    BC.open = fs.open

    def harness():
        # CrossHair's regex model returns an under-constrained group for `(.*)` on a symbolic line (a non-reproducing
        # counterexample, caught by replay), so the value is a solver-chosen element of concrete representatives
        val = chx.pick("value", PARSE_REPRESENTATIVES)
        kind = chx.sym_sel("kind", 3)
        if kind == 0:
            text = 'SB_CONFIG_SUIT_MPI_ROOT_VENDOR_NAME="' + val + '"\n# comment\nCONFIG_X=y\n'
        elif kind == 1:
            text = "\nCONFIG_A=0x1F\nSB_CONFIG_SUIT_MPI_ROOT_CLASS_NAME=\"" + val + "\"\n"
        else:
            text = "CONFIG_N=42\n"
        fs.files = {}
        fs.names, fs.contents = [], []
        fs.add(".config", text)
        cfg = BC.BuildConfiguration(".config")
        if kind == 0:
            ok = len(cfg) == 2 and cfg["SB_CONFIG_SUIT_MPI_ROOT_VENDOR_NAME"] == val and cfg["CONFIG_X"] is True
        elif kind == 1:
            ok = len(cfg) == 2 and cfg["SB_CONFIG_SUIT_MPI_ROOT_CLASS_NAME"] == val and cfg["CONFIG_A"] == 31
        else:
            ok = len(cfg) == 1 and cfg["CONFIG_N"] == 42
        return chx.conclude(ok, value=val, kind=kind)

    return harness


# ------------------------------------------------------------------------------------------------ validation / replay


def _real_three(v, c, d):
    """cid/vid through the three real sites."""
    import suit_generator.cmd_image as CI
    import suit_generator.cmd_mpi as MP
    import suit_generator.suit.manifest as MF

    from vlib.hexread import read_hex

    cid_m = bytes.fromhex(MF.SuitUUID.from_obj({"RFC4122_UUID": {"namespace": v, "name": c}}).to_obj()["raw"])
    vid_m = bytes.fromhex(MF.SuitUUID.from_obj({"RFC4122_UUID": v}).to_obj()["raw"])
    out = os.path.join(d, "m.hex")
    MP.MpiGenerator.generate(out, v, c, 0x2000, 48, False, False, None)
    mem = read_hex(open(out).read())
    rec = bytes(mem[0x2000 + i] for i in range(48))
    st = CI.EnvelopeStorageNrf54h20(0, load_defaults=False)
    st.assign_role(v, c, CI.ManifestRole.APP_LOCAL_2)
    e = list(st._assignments.values())[0]
    return cid_m, vid_m, rec[32:48], rec[16:32], e["class_id"], e["vendor_id"], st


def v_sites():
    from vlib import repoenv

    repoenv.prepare_concrete()
    n = 0
    bad = []
    d = tempfile.mkdtemp(prefix="verif-c13-")
    try:
        for v, c in (("nordicsemi.com", "nRF54H20_sample_root"), ("", ""), ("é", "ß" * 40), ("a" * 300, "x")):
            n += 1
            try:
                cid_m, vid_m, cid_p, vid_p, cid_s, vid_s, st = _real_three(v, c, d)
            except Exception as e:  # noqa
                bad.append((v[:10], c[:10], type(e).__name__))
                continue
            vid = real_uuid.uuid5(real_uuid.NAMESPACE_DNS, v)
            cid = real_uuid.uuid5(vid, c)
            if not (cid_m == cid_p == cid_s == cid.bytes and vid_m == vid_p == vid_s == vid.bytes):
                bad.append((v[:10], c[:10]))
    finally:
        import shutil

        shutil.rmtree(d, ignore_errors=True)
    # with hooks off the checks are still meaningful: a disagreement here is a property violation found concretely,
    # reported as harness error only because the deciding technique is the symbolic obligations
    return dict(verdict="CONFIRMED", paths=n, validated=n, message=("note: sample names disagree " + repr(bad)) if bad else "", observations=bad)


def replay(obligation, params, cex):
    import suit_generator.cmd_image as CI
    import suit_generator.suit.manifest as MF
    from suit_generator.exceptions import GeneratorError

    d = tempfile.mkdtemp(prefix="verif-c13r-")
    try:
        if obligation == "three_sites_agree":
            v, c = cex.get("vendor", ""), cex.get("klass", "")
            try:
                cid_m, vid_m, cid_p, vid_p, cid_s, vid_s, st = _real_three(v, c, d)
            except Exception as e:  # noqa
                return dict(reproduced=True, detail=f"raises {type(e).__name__}: {e}")
            vid = real_uuid.uuid5(real_uuid.NAMESPACE_DNS, v)
            cid = real_uuid.uuid5(vid, c)
            ok = cid_m == cid_p == cid_s == cid.bytes and vid_m == vid_p == vid_s == vid.bytes and st._find_role(cid.bytes) == CI.ManifestRole.APP_LOCAL_2 and st._find_role(vid.bytes) is None
            return dict(reproduced=not ok, detail=f"manifest {cid_m.hex()} mpi {cid_p.hex()} storage {cid_s.hex()} expected {cid.hex}")
        if obligation == "name_only_and_raw_forms":
            name, form, raw = cex.get("name", ""), cex.get("form", 0), cex.get("raw", b"\0" * 16)
            exp = real_uuid.uuid5(real_uuid.NAMESPACE_DNS, name).bytes
            try:
                if form == 0:
                    return dict(reproduced=MF.SuitUUID.from_obj({"RFC4122_UUID": name}).to_cbor() != b"\x50" + exp, detail="name-only form")
                if form == 1:
                    return dict(reproduced=MF.SuitUUID.from_obj({"RFC4122_UUID": {"name": name}}).to_cbor() != b"\x50" + exp, detail="dict name-only form")
                if form == 2:
                    ok = MF.SuitUUID(raw).to_cbor() == b"\x50" + raw and MF.SuitUUID.from_cbor(raw).to_obj() == {"raw": raw.hex()}
                    return dict(reproduced=not ok, detail="raw form")
                bad = [{"RFC4122_UUID": {"namespace": name}}, {"uuid": name}, name][form - 3]
                try:
                    MF.SuitUUID.from_obj(bad)
                    return dict(reproduced=True, detail="malformed form accepted")
                except ValueError:
                    return dict(reproduced=False, detail="rejected")
            except Exception as e:  # noqa
                return dict(reproduced=True, detail=f"raises {type(e).__name__}: {e}")
        if obligation == "kconfig_assignments":
            present, vals = cex.get("present", []), cex.get("vals", [])
            lines = ["CONFIG_X=y\n"]
            for i in present:
                m = CONFIGURABLE[i][0]
                lines.append(f'SB_CONFIG_SUIT_MPI_{m}_VENDOR_NAME="{vals[i][0]}"\n')
                lines.append(f'SB_CONFIG_SUIT_MPI_{m}_CLASS_NAME="{vals[i][1]}"\n')
            if any(ch in s for i in present for s in vals[i] for ch in '"\n\r'):
                return dict(reproduced=None, detail="value not expressible in a Kconfig line")
            f = os.path.join(d, "k.config")
            open(f, "w", encoding="utf-8").write("".join(lines))
            dup = any(a < b and vals[a] == vals[b] for a in present for b in present)
            try:
                st = CI.EnvelopeStorageNrf54h20(0x1000, load_defaults=False, kconfig=f)
            except GeneratorError:
                return dict(reproduced=not dup, detail="GeneratorError" + (" (duplicate)" if dup else " without duplicate"))
            except Exception as e:  # noqa
                return dict(reproduced=True, detail=f"raises {type(e).__name__}: {e}")
            if dup:
                return dict(reproduced=True, detail="duplicate vendor/class pair for two roles accepted")
            ok = len(st._assignments) == len(present)
            for i in present:
                cid = real_uuid.uuid5(real_uuid.uuid5(real_uuid.NAMESPACE_DNS, vals[i][0]), vals[i][1])
                ok = ok and st._find_role(cid.bytes) == CI.ManifestRole[CONFIGURABLE[i][1]]
            return dict(reproduced=not ok, detail="assignments differ from the configured pairs" if not ok else "assignments exact")
        if obligation == "kconfig_line_parser":
            import build_configuration.configuration as BC

            val, kind = cex.get("value", ""), cex.get("kind", 0)
            f = os.path.join(d, ".config")
            if kind == 0:
                text = 'SB_CONFIG_SUIT_MPI_ROOT_VENDOR_NAME="' + val + '"\n# comment\nCONFIG_X=y\n'
            elif kind == 1:
                text = "\nCONFIG_A=0x1F\nSB_CONFIG_SUIT_MPI_ROOT_CLASS_NAME=\"" + val + "\"\n"
            else:
                text = "CONFIG_N=42\n"
            open(f, "w", encoding="utf-8", newline="").write(text)
            try:
                cfg = BC.BuildConfiguration(f)
            except Exception as e:  # noqa
                return dict(reproduced=True, detail=f"raises {type(e).__name__}: {e}")
            if kind == 0:
                ok = len(cfg) == 2 and cfg.get("SB_CONFIG_SUIT_MPI_ROOT_VENDOR_NAME") == val and cfg.get("CONFIG_X") is True
            elif kind == 1:
                ok = len(cfg) == 2 and cfg.get("SB_CONFIG_SUIT_MPI_ROOT_CLASS_NAME") == val and cfg.get("CONFIG_A") == 31
            else:
                ok = len(cfg) == 1 and cfg.get("CONFIG_N") == 42
            return dict(reproduced=not ok, detail=f"parsed {dict(cfg)!r} from value {val!r}")
        return dict(reproduced=None, detail="unknown obligation")
    finally:
        import shutil

        shutil.rmtree(d, ignore_errors=True)
