"""C14 - every encryption uses a fresh IV (basic_kms.py, encrypt_script.py)."""
from __future__ import annotations

from vlib.ob import Ob

PROPERTY = "C14"

META = {
    "files": ["ncs/basic_kms.py", "ncs/encrypt_script.py", "suit_generator/cmd_encrypt.py"],
    "functions": [
        "ncs.basic_kms.SuitKMS.encrypt",
        "ncs.encrypt_script.Encryptor.encrypt_and_generate/generate_kms_artifacts/parse_encrypted_assets/generate_suit_encryption_info",
        "suit_generator.cmd_encrypt.encrypt_and_generate",
    ],
    "bounds": "histories of k = 1, 2, 3 consecutive encrypt-and-generate calls on ONE Encryptor object and on fresh objects (and through the CLI function), plaintexts "
    "equal or different (solver-chosen), key ids symbolic (full 32-bit range for k = 1, 0..23 for k > 1: the widths are C06's business); entropy source returns independent opaque 12-byte values R_1..R_k",
    "stubs": ["os.urandom -> fresh opaque bytes per call with a log; AESGCM -> argument log; hashes.Hash -> token stub (same seam as C06)"],
    "outside": [
        "pairwise distinctness of the IVs is reduced to pairwise distinctness of the OS entropy outputs (statistical contract of os.urandom; not decidable by a solver): "
        "what is decided is IV_i == R_i == nonce used, one 12-byte draw per call, no dependence on plaintext/key id/earlier calls",
        "histories longer than 3 and separate processes: covered by the frame condition (no nonce-relevant state on Encryptor/SuitKMS objects or modules), checked here for k <= 3",
    ],
    "assumptions": ["os.urandom returns independent uniformly random bytes"],
}


def obligations(tier):
    obs = []
    for k in (1, 2, 3) if tier == "quick" else (1, 2, 3, 4):
        obs.append(Ob(f"history_same_object_k{k}", "E1", "h_history", {"k": k, "fresh": False}, 600, f"{k} calls on one Encryptor: IV_i == R_i == nonce_i, one urandom(12) per call", weight=20 * k))
        obs.append(Ob(f"history_fresh_objects_k{k}", "E1", "h_history", {"k": k, "fresh": True}, 600, f"{k} calls on fresh Encryptors / through the CLI function", weight=20 * k))
    return obs


def h_history(k=2, fresh=False, exclude=()):
    from props import c06

    BK, ES, CE, SE, fs, stubs = c06._env()
    import os

    from suit_generator.suit_encrypt_script_base import SuitDigestAlgorithms, SuitKWAlgorithms

    from vlib import cbormodel, chx

    def harness():
        cbormodel.reset()
        c06.reset_environment()
        stubs.HashLog.reset()
        c06.AesLog.CALLS, c06.AesLog.URANDOM = [], []
        fs.names, fs.contents, fs.writes = [], [], []
        key = chx.sym_bytes("key", 32)
        kname = chx.pick("key_name", ["fwkey", "firmware-key-0001", "k"])
        fs.add("/keys/" + kname + ".bin", key)
        same_pt = chx.sym_bool("same_plaintext")
        pts = [chx.sym_bytes("pt0_", 2)]
        for i in range(1, k):
            pts.append(pts[0] if same_pt else chx.sym_bytes(f"pt{i}_", 2))
        kids = [chx.sym_int(f"key_id{i}", 0, 2**32 - 1 if k == 1 else 23) for i in range(k)]  # one CBOR width class per id for k > 1 (C06 covers the widths)
        enc = ES.Encryptor()
        infos = []
        for i in range(k):
            if fresh and i == k - 1:
                fs.add("fw.bin", pts[i])
                CE.main(encrypt_subcommand="encrypt-and-generate", encrypt_script="e.py", firmware="fw.bin", key_name=kname, key_id=kids[i], context=None, hash_alg="sha-256", kw_alg="direct", kms_script="k.py", output_dir="o")
                info = fs.written(os.path.join("o", "suit_encryption_info.bin"))
            else:
                e = ES.Encryptor() if fresh else enc
                ct, tag, info, digest, plen = e.encrypt_and_generate(pts[i], kname, kids[i], None, SuitDigestAlgorithms.SHA_256, SuitKWAlgorithms.DIRECT, "k.py")
            infos.append(info)
        ok = len(c06.AesLog.URANDOM) == k and len(c06.AesLog.CALLS) == k
        if ok:
            for i in range(k):
                n, r = c06.AesLog.URANDOM[i]
                _, nonce, data, aad, out = c06.AesLog.CALLS[i]
                if isinstance(n, tuple):
                    # 96 random bits drawn as an integer: the IV must be its fixed-width 12-byte rendering
                    ok = ok and n[1] == 96 and len(nonce) == 12
                    if ok:
                        ok = nonce == r.to_bytes(12, "big") or nonce == r.to_bytes(12, "little")
                    r = nonce
                    n = 12
                exp_info, _ = c06.ref_info(__import__("vlib.refenc", fromlist=["x"]), kids[i], r)
                ok = ok and n == 12 and nonce == r and data == pts[i] and infos[i] == exp_info
        return chx.conclude(ok, k=k, same_plaintext=same_pt)

    return harness


def replay(obligation, params, cex):
    """Concrete history with the real entropy source replaced by a recorder of what it returned."""
    import os
    import tempfile

    import cbor2

    import ncs.basic_kms as BK
    import suit_generator.cmd_encrypt as CE
    from vlib.repoenv import REPO

    k = params.get("k", 2)
    d = tempfile.mkdtemp(prefix="verif-c14r-")
    drawn = []
    real_urandom = os.urandom

    class OsProxy:
        path = os.path

        @staticmethod
        def urandom(n):
            r = real_urandom(n)
            drawn.append(r)
            return r

        def __getattr__(self, name):
            return getattr(os, name)

    # the entropy source is an input: the real code is run with os.urandom / secrets returning the solver's values (then real randomness)
    import secrets as _secrets

    def _val(v):
        if isinstance(v, dict) and "__bytes__" in v:
            return bytes.fromhex(v["__bytes__"])
        return v

    feed_bytes = [_val(cex[n]) for n in sorted(cex) if n.startswith("entropy") and isinstance(_val(cex[n]), bytes)]
    feed_bits = [cex[n] for n in sorted(cex) if n.startswith("randbits") and isinstance(cex[n], int)]
    real_randbits, real_token = _secrets.randbits, _secrets.token_bytes

    def fed_urandom(n):
        if feed_bytes and len(feed_bytes[0]) == n:
            return feed_bytes.pop(0)
        return real_urandom(n)

    def fed_randbits(kbits):
        if feed_bits and feed_bits[0] < 2**kbits:
            return feed_bits.pop(0)
        return real_randbits(kbits)

    os.urandom = fed_urandom
    _secrets.randbits = fed_randbits
    _secrets.token_bytes = fed_urandom
    env_set = {k[4:]: v for k, v in cex.items() if k.startswith("env_") and isinstance(v, str)}
    saved_env = {k: os.environ.get(k) for k in env_set}
    os.environ.update(env_set)
    try:
        kd = os.path.join(d, "keys")
        os.makedirs(kd)
        open(os.path.join(kd, "fwkey.bin"), "wb").write(bytes(range(32)))
        fw = os.path.join(d, "fw.bin")
        ivs = []
        contents = []
        from cryptography.hazmat.primitives.ciphers.aead import AESGCM

        from vlib import refenc

        keynames = ["fwkey", "firmware-key-0001"]
        for kn in keynames:
            open(os.path.join(kd, kn + ".bin"), "wb").write(bytes(range(32)))
        for i in range(2 * (k + 2) * len(keynames)):
            # the history class of the counterexample is searched over: equal and different plaintexts, two key names
            same = (i // (k + 2)) % 2 == 0
            keyname = keynames[i // (2 * (k + 2))]
            if i % (2 * (k + 2)) == 0:
                ivs = []
            pt = b"same firmware" if same else b"fw-%d" % i
            open(fw, "wb").write(pt)
            od = os.path.join(d, f"o{i}")
            os.makedirs(od)
            import importlib

            try:
              if params.get("fresh", True):
                CE.main(encrypt_subcommand="encrypt-and-generate", encrypt_script=os.path.join(REPO, "ncs", "encrypt_script.py"), firmware=fw, key_name=keyname, key_id=7, context=kd, hash_alg="sha-256", kw_alg="direct", kms_script=os.path.join(REPO, "ncs", "basic_kms.py"), output_dir=od)
                tagged = cbor2.loads(cbor2.loads(open(os.path.join(od, "suit_encryption_info.bin"), "rb").read()))
                content = open(os.path.join(od, "encrypted_content.bin"), "rb").read()
              else:
                # the history of the obligation: ONE encryptor object used for all calls
                from suit_generator.suit_encrypt_script_base import SuitDigestAlgorithms, SuitKWAlgorithms

                if i % (2 * (k + 2)) == 0:
                    the_encryptor = CE._import_encryptor(os.path.join(REPO, "ncs", "encrypt_script.py"))
                ct_, tag_, info_, _dg, _ln = the_encryptor.encrypt_and_generate(pt, keyname, 7, kd, SuitDigestAlgorithms.SHA_256, SuitKWAlgorithms.DIRECT, os.path.join(REPO, "ncs", "basic_kms.py"))
                tagged = cbor2.loads(cbor2.loads(info_))
                content = tag_ + ct_
            except Exception as ex:  # noqa
                return dict(reproduced=True, detail=f"call {i}: encryption of a valid input fails for this entropy output / environment: {type(ex).__name__}: {ex}")
            iv = tagged.value[1][5]
            ivs.append(iv)
            try:
                if AESGCM(bytes(range(32))).decrypt(iv, content[16:] + content[:16], refenc.enc_structure(tagged.value[0])) != pt:
                    return dict(reproduced=True, detail=f"call {i}: published IV does not decrypt the ciphertext to the plaintext")
            except Exception as e:  # noqa
                return dict(reproduced=True, detail=f"call {i}: published IV is not the one the ciphertext was produced with ({type(e).__name__})")
            if len(set(ivs)) != len(ivs):
                return dict(reproduced=True, detail=f"IV reused across {len(ivs)} encryptions with one key: {[x.hex() for x in ivs]}")
            if any(len(x) != 12 for x in ivs):
                return dict(reproduced=True, detail="IV is not 96 bits")
        return dict(reproduced=False, detail="IVs pairwise distinct and usable for decryption")
    finally:
        import shutil

        os.urandom = real_urandom
        _secrets.randbits, _secrets.token_bytes = real_randbits, real_token
        for k_, v_ in saved_env.items():
            if v_ is None:
                os.environ.pop(k_, None)
            else:
                os.environ[k_] = v_
        shutil.rmtree(d, ignore_errors=True)
