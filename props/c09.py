"""C09 - signing policy: already-signed action, key match, recursive configuration (cmd_sign.py, sign_script.py, basic_kms.py)."""
from __future__ import annotations

import json
import os
import tempfile

from vlib.ob import Ob

PROPERTY = "C09"

META = {
    "files": ["suit_generator/cmd_sign.py", "ncs/sign_script.py", "ncs/basic_kms.py"],
    "engine": "E1 CrossHair (policy flows) + E2 kernsym (key type check, shared with C04)",
    "functions": [
        "ncs.sign_script.Signer.already_signed_action/sign_envelope/add_signature",
        "suit_generator.cmd_sign.RecursiveSigner.__init__/_load_dependency/_sign/recursive_sign",
        "suit_generator.cmd_sign.recursive_sign/single_level_sign/main/load_envelope/save_envelope",
        "ncs.basic_kms.SuitKMS.sign/_verify_signing_key_type/_get_sign_method",
    ],
    "bounds": "single level: 3 actions x existing wrapper entry in {none, COSE_Sign1 block, non-bstr item, bstr of another tag} x 5 algorithms, key id < 2^32, "
    "opaque contents; recursive: trees root / root+dep / root+2 deps / root->dep->subdep, per node symbolic omit-signing, key present, algorithm "
    "override, per named dependency symbolic 'present in envelope' and 'is an envelope', action per node in {error, skip, remove-old} with an existing "
    "signature on the dependency symbolic; key names/ids concrete and distinct per node",
    "stubs": [
        "cbor2 -> cbormodel (immutable tag content as in cbor2 6); KMS recorder behind Signer.init_kms_backend; cmd_sign._import_signer -> real ncs Signer",
        "open()/json.load -> in-memory files (JSON text is produced concretely on each path)",
        "key type vs algorithm: SuitKMS.sign interpreted by kernsym with library models (obligation key_type_match, same as C04)",
    ],
    "outside": ["cryptographic validity (as C04)", "inputs that already carry two or more signatures (outside the stated quantifier; observation only)", "symbolic key identifiers in the JSON configuration (int(str, 0) realizes)"],
    "assumptions": [],
}

ACTIONS = ["ERROR", "SKIP", "REMOVE_OLD"]


def obligations(tier):
    obs = [
        Ob("already_signed_actions", "E1", "h_actions", {}, 900, "3 actions x 4 kinds of existing entry x 5 algorithms, key id < 2^32, through the CLI with files", weight=120),
        Ob("key_type_match", "E2", "k_keytype", {}, 600, "SuitKMS.sign: key kind x algorithm string: mismatches refused before anything is signed", weight=20),
        Ob("recursive_root_only", "E1", "h_recursive", {"shape": "root"}, 600, "root only: omit-signing / key present symbolic", weight=10),
    ]
    for r in range(4):
        obs.append(Ob(f"recursive_one_dep_root{r}", "E1", "h_recursive", {"shape": "one", "root_sel": r}, 900, f"root + 1 named dependency, all dependency flags symbolic; root (omit, key) combination #{r}", weight=100))
    for r in range(3):
        obs.append(Ob(f"recursive_two_deps_policy_root{r}", "E1", "h_recursive", {"shape": "two", "mode": "policy", "root_sel": r}, 1200, f"root + 2 named dependencies, all present: per node {{sign, omit with key, omit without key}} (root fixed to #{r}), algorithm overrides, pre-signed last node x 3 actions", weight=150))
        obs.append(Ob(f"recursive_chain_policy_root{r}", "E1", "h_recursive", {"shape": "chain", "mode": "policy", "root_sel": r}, 1200, f"root -> dep -> subdep (depth 3), all present: per-node policy (root fixed to #{r})", weight=150))
    obs += [
        Ob("recursive_two_deps_missing", "E1", "h_recursive", {"shape": "two", "mode": "deps"}, 600, "root + 2 named dependencies: each absent / not bytes / not an envelope -> refusal without output", weight=50),
        Ob("recursive_chain_missing", "E1", "h_recursive", {"shape": "chain", "mode": "deps"}, 600, "depth 3: each dependency absent / not bytes / not an envelope -> refusal without output", weight=50),
    ]
    return obs


def k_keytype(exclude=()):
    from props import c04

    return c04.k_kms()


# ------------------------------------------------------------------------------------------------ E1 helpers


def _env():
    from props import c04

    return c04._env()


def _block(cbormodel, refenc, cose_alg, kid, sig):
    from vlib.cbormodel import CBORTag

    protected = refenc.BW(refenc.M([(1, cose_alg), (4, refenc.BW(kid))]))
    return refenc.BW(CBORTag(18, [protected, {}, None, sig])), protected


def h_actions(exclude=()):
    SS, CS, stubs = _env()
    from props import c04
    from props.c04 import ALGS
    from suit_generator.suit_sign_script_base import SignatureAlreadyPresentActions, SuitSignAlgorithms

    from vlib import cbormodel, chx, refenc
    from vlib import registry as R
    from vlib.cbormodel import CBORTag

    fs = stubs.FS()
    CS.open = fs.open

    def harness():
        cbormodel.reset()
        stubs.KMSRecorder.reset()
        kid = chx.sym_int("key_id", 0, 2**32 - 1)
        ai = chx.sym_sel("alg", len(ALGS))
        alg_member, alg_str, cose_name = ALGS[0]
        for i, a in enumerate(ALGS):
            if ai == i:
                alg_member, alg_str, cose_name = a
        act = chx.sym_sel("action", 3)
        existing = chx.sym_sel("existing", 4)
        sig_new = chx.sym_bytes("sig_new", 6)
        sig_old = chx.sym_bytes("sig_old", 6)
        stubs.KMSRecorder.SIGNATURES = [sig_new]
        digest = chx.sym_bytes("digest", 4)
        manifest = chx.sym_bytes("manifest", 3)
        payload = chx.sym_bytes("payload", 2)
        digest_bstr = cbormodel.plain_dumps([-16, digest])
        old_block, _ = _block(cbormodel, refenc, -8, 5, sig_old)
        entries = [digest_bstr]
        if existing == 1:
            entries.append(old_block)
        elif existing == 2:
            entries.append(7)
        elif existing == 3:
            entries.append(cbormodel.plain_dumps(CBORTag(99, [1])))
        in_bytes = cbormodel.dumps(CBORTag(107, {2: cbormodel.plain_dumps(entries), 3: manifest, "#p": payload}))
        fs.names, fs.contents, fs.writes = [], [], []
        fs.add("in.suit", in_bytes)
        action = SignatureAlreadyPresentActions.ERROR if act == 0 else (SignatureAlreadyPresentActions.SKIP if act == 1 else SignatureAlreadyPresentActions.REMOVE_OLD)
        raised = False
        try:
            CS.main(sign_subcommand="single-level", input_envelope="in.suit", output_envelope="out.suit", key_name="kn", key_id=kid, alg=SuitSignAlgorithms[alg_member], context=None, sign_script=c04.SIGN_SCRIPT(), kms_script=c04.KMS_SCRIPT(), already_signed_action=action)
        except Exception:
            raised = True
        out = fs.written("out.suit")
        signs = [e for e in stubs.KMSRecorder.LOG if e[0] == "sign"]
        new_block, protected = _block(cbormodel, refenc, R.COSE_ALGS[cose_name], kid, sig_new)
        signed = existing == 1

        def expect(wrapper_entries):
            return cbormodel.plain_dumps(CBORTag(107, refenc.M([(2, cbormodel.plain_dumps(wrapper_entries)), (3, manifest), ("#p", payload)])))

        if signed and act == 0:
            ok = raised and out is None and len(signs) == 0
        elif signed and act == 1:
            ok = (not raised) and out == expect(entries) and len(signs) == 0
        elif signed and act == 2:
            ok = (not raised) and out == expect([digest_bstr, new_block]) and len(signs) == 1
        else:
            ok = (not raised) and out == expect(entries + [new_block]) and len(signs) == 1
        if ok and len(signs) == 1:
            ok = signs[0][1] == refenc.sig_structure(protected, digest_bstr) and signs[0][2] == "kn" and signs[0][3] == alg_str
        return chx.conclude(ok, key_id=kid, alg=ai, action=act, existing=existing)

    return harness


# ------------------------------------------------------------------------------------------------ recursive signing

NODE_KEYS = {"root": ("key-root", "0x11", 0x11), "dep1": ("key-dep1", "0x22", 0x22), "dep2": ("key-dep2", "0x33", 0x33), "sub": ("key-sub", "0x44", 0x44)}
SHAPES = {
    "root": {"root": []},
    "one": {"root": ["dep1"], "dep1": []},
    "two": {"root": ["dep1", "dep2"], "dep1": [], "dep2": []},
    "chain": {"root": ["dep1"], "dep1": ["sub"], "sub": []},
}
ALG_OF = {"eddsa": ("cose-alg-eddsa", -8), "es-256": ("cose-alg-es-256", -7), "es-384": ("cose-alg-es-384", -35)}


def expected_tree(shape, flags, leafbytes, sigs, cbormodel, refenc):
    """Reference policy model.  Returns ('error', None) or ('ok', root bytes, [kms calls (node, key name, alg string)])."""
    from vlib.cbormodel import CBORTag

    calls = []
    err = [False]
    sig_iter = iter(sigs)

    def alg_for(node, inherited):
        f = flags[node]
        return f.get("alg") or inherited

    def build(node, inherited_alg, named_in_cfg=True):
        f = flags[node]
        lb = leafbytes[node]
        alg = alg_for(node, inherited_alg)
        if not f["omit"] and not f["has_key"]:
            err[0] = True
        members = []
        digest_bstr = cbormodel.plain_dumps([-16, lb["digest"]])
        entries = [digest_bstr]
        if f.get("pre_signed"):
            entries.append(lb["old_block"])
        child_bytes = {}
        for ch in SHAPES[shape][node]:
            cf = flags[ch]
            if not cf["present"] or not cf["is_env"]:
                err[0] = True
                child_bytes[ch] = None
            else:
                child_bytes[ch] = build(ch, alg)
        if err[0]:
            return None
        # own signature after the dependencies (bottom-up)
        if not f["omit"]:
            if f.get("pre_signed"):
                act = f.get("action", "error")
                if act == "error":
                    err[0] = True
                    return None
                if act == "skip":
                    pass
                else:  # remove-old
                    sig = next(sig_iter)
                    cose_name, code = ALG_OF[alg]
                    protected = refenc.BW(refenc.M([(1, code), (4, refenc.BW(NODE_KEYS[node][2]))]))
                    entries = [digest_bstr, refenc.BW(CBORTag(18, [protected, {}, None, sig]))]
                    calls.append((node, NODE_KEYS[node][0], alg, refenc.sig_structure(protected, digest_bstr)))
            else:
                sig = next(sig_iter)
                cose_name, code = ALG_OF[alg]
                protected = refenc.BW(refenc.M([(1, code), (4, refenc.BW(NODE_KEYS[node][2]))]))
                entries = entries + [refenc.BW(CBORTag(18, [protected, {}, None, sig]))]
                calls.append((node, NODE_KEYS[node][0], alg, refenc.sig_structure(protected, digest_bstr)))
        members.append((2, cbormodel.plain_dumps(entries)))
        members.append((3, lb["manifest"]))
        members.append(("#unnamed-payload", lb["payload"]))
        for ch in SHAPES[shape][node]:
            members.append((ch + ".suit", child_bytes[ch]))
        return cbormodel.plain_dumps(CBORTag(107, refenc.M(members)))

    out = build("root", "eddsa")
    if err[0]:
        return "error", None, []
    return "ok", out, calls


def build_input(shape, flags, leafbytes, cbormodel):
    from vlib.cbormodel import CBORTag

    def build(node):
        f = flags[node]
        lb = leafbytes[node]
        entries = [cbormodel.plain_dumps([-16, lb["digest"]])]
        if f.get("pre_signed"):
            entries.append(lb["old_block"])
        members = {2: cbormodel.plain_dumps(entries), 3: lb["manifest"], "#unnamed-payload": lb["payload"]}
        for ch in SHAPES[shape][node]:
            cf = flags[ch]
            if not cf["present"]:
                continue
            if cf["is_env"]:
                members[ch + ".suit"] = build(ch)
            elif cf.get("garbage_kind", 0) == 0:
                members[ch + ".suit"] = b"\x01\x02"  # bytes, decodes to an int: not an envelope
            else:
                members[ch + ".suit"] = 5  # not even a byte string
        return cbormodel.plain_dumps(CBORTag(107, members))

    return build("root")


def build_config(shape, flags):
    def cfg(node, top=False):
        f = flags[node]
        c = {}
        if top:
            from props import c04

            c["sign-script"] = c04.SIGN_SCRIPT()
            c["kms-script"] = c04.KMS_SCRIPT()
        # every node has its own KMS context (key directory): the KMS that signs a node must have been initialised with it
        c["context"] = "ctx-" + node
        if f["has_key"]:
            c["key-name"] = NODE_KEYS[node][0]
            c["key-id"] = NODE_KEYS[node][1]
        if f["omit"] or f.get("omit_explicit_false"):
            c["omit-signing"] = bool(f["omit"])
        if f.get("alg"):
            c["alg"] = f["alg"]
        if f.get("action"):
            c["already-signed-action"] = f["action"]
        deps = SHAPES[shape][node]
        if deps:
            c["dependencies"] = {ch + ".suit": cfg(ch) for ch in deps}
        return c

    return cfg("root", True)


def h_recursive(shape="one", mode="full", root_sel=None, exclude=()):
    SS, CS, stubs = _env()
    from vlib import cbormodel, chx, refenc

    fs = stubs.FS()
    CS.open = fs.open
    nodes = list(SHAPES[shape])

    def harness():
        cbormodel.reset()
        stubs.KMSRecorder.reset()
        flags = {}
        leafbytes = {}
        for n in nodes:
            if mode == "full":
                if n == "root" and root_sel is not None:
                    f = {"omit": bool(root_sel & 1), "has_key": bool(root_sel & 2)}
                else:
                    f = {"omit": bool(chx.sym_bool(f"omit_{n}")), "has_key": bool(chx.sym_bool(f"has_key_{n}"))}
            elif mode == "policy":
                if n == "root" and root_sel is not None:
                    pol = root_sel
                else:
                    pol = chx.sym_sel(f"policy_{n}", 3)  # sign / omit with key / omit without key
                f = {"omit": bool(pol != 0), "has_key": bool(pol != 2)}
            else:
                f = {"omit": False, "has_key": True}
            if n != "root":
                if mode == "policy":
                    f["present"], f["is_env"] = True, True
                else:
                    f["present"] = bool(chx.sym_bool(f"present_{n}"))
                    f["is_env"] = bool(chx.sym_bool(f"is_env_{n}"))
                    if not f["is_env"]:
                        f["garbage_kind"] = 1 if chx.sym_bool(f"garbage_{n}") else 0
                if mode != "deps" and chx.sym_bool(f"alg_override_{n}"):
                    f["alg"] = "es-256" if n == "dep1" else "es-384"
            if n == nodes[-1] and mode != "deps":
                # the last node may already carry a signature, with its own configured action
                if chx.sym_bool(f"pre_signed_{n}"):
                    f["pre_signed"] = True
                    f["action"] = chx.pick(f"action_{n}", ["error", "skip", "remove-old"])
            flags[n] = f
            lb = {"digest": chx.sym_bytes(f"digest_{n}", 3), "manifest": chx.sym_bytes(f"manifest_{n}", 2), "payload": chx.sym_bytes(f"payload_{n}", 2)}
            lb["old_block"], _ = _block(cbormodel, refenc, -8, 99, b"OLDSIG")
            leafbytes[n] = lb
        sigs = [chx.sym_bytes(f"sig{i}", 4) for i in range(len(nodes))]
        stubs.KMSRecorder.SIGNATURES = list(sigs)
        in_bytes = build_input(shape, flags, leafbytes, cbormodel)
        cfg = build_config(shape, flags)
        fs.names, fs.contents, fs.writes = [], [], []
        fs.add("in.suit", cbormodel.dumps(cbormodel.plain_loads(in_bytes)))
        fs.add("cfg.json", json.dumps(cfg))
        raised = None
        try:
            CS.main(sign_subcommand="recursive", input_envelope="in.suit", output_envelope="out.suit", configuration="cfg.json")
        except Exception as e:
            raised = type(e).__name__
        out = fs.written("out.suit")
        status, exp_bytes, exp_calls = expected_tree(shape, flags, leafbytes, sigs, cbormodel, refenc)
        signs = [e for e in stubs.KMSRecorder.LOG if e[0] == "sign"]
        if status == "error":
            ok = raised is not None and out is None
        else:
            ok = raised is None and out == exp_bytes and len(signs) == len(exp_calls)
            if ok:
                for s, (node, kname, alg, tbs) in zip(signs, exp_calls):
                    ok = ok and s[2] == kname and s[3] == alg and s[1] == tbs and s[4] == "ctx-" + node and s[5] == "ctx-" + node
        return chx.conclude(ok, flags=flags, raised=raised, status=status)

    return harness


# ------------------------------------------------------------------------------------------------ replay


def replay(obligation, params, cex):
    import cbor2

    import suit_generator.cmd_sign as CS
    from props import c04
    from suit_generator.suit_sign_script_base import SignatureAlreadyPresentActions, SuitSignAlgorithms
    from vlib.repoenv import REPO

    d = tempfile.mkdtemp(prefix="verif-c09r-")
    try:
        keys = c04._make_keys(d)
        if obligation == "key_type_match":
            return c04.replay("kms_sign_dispatch", params, cex)
        if obligation == "already_signed_actions":
            alg_member, alg_str, cose_name = c04.ALGS[cex.get("alg", 0)]
            kid = cex.get("key_id", 0)
            act = ACTIONS[cex.get("action", 0)]
            existing = cex.get("existing", 0)
            base = cbor2.loads(c04._sample_envelope(1))
            wrapper = cbor2.loads(base.value[2])
            if existing == 1:
                signed0 = c04._real_sign(CS, d, c04._sample_envelope(1), "EdDSA", "eddsa", 5)
                wrapper = cbor2.loads(cbor2.loads(signed0).value[2])
            elif existing == 2:
                wrapper.append(7)
            elif existing == 3:
                wrapper.append(cbor2.dumps(cbor2.CBORTag(99, [1])))
            members = dict(base.value)
            members[2] = cbor2.dumps(wrapper)
            inb = cbor2.dumps(cbor2.CBORTag(107, members))
            try:
                outb = c04._real_sign(CS, d, inb, alg_member, alg_str, kid, action=act)
                raised = None
            except Exception as e:  # noqa
                outb, raised = None, type(e).__name__
            out_exists = os.path.exists(os.path.join(d, "out.suit"))
            if existing == 1 and act == "ERROR":
                return dict(reproduced=not (raised and not out_exists), detail=f"raised={raised}, output exists={out_exists}")
            if raised:
                return dict(reproduced=True, detail=f"raises {raised}", finding=None)
            if existing == 1 and act == "SKIP":
                return dict(reproduced=outb != inb, detail="skip must return the envelope unchanged")
            if existing == 1 and act == "REMOVE_OLD":
                w = cbor2.loads(cbor2.loads(outb).value[2])
                if len(w) != 2:
                    return dict(reproduced=True, detail=f"remove-old leaves {len(w) - 1} signature blocks")
                stripped = dict(members)
                stripped[2] = cbor2.dumps(wrapper[:1])
                r = c04.verify_signed(cbor2.dumps(cbor2.CBORTag(107, stripped)), outb, alg_str, cose_name, kid, keys[alg_str].public_key())
                return dict(reproduced=r is not None, detail=r or "only the new valid signature remains")
            r = c04.verify_signed(inb, outb, alg_str, cose_name, kid, keys[alg_str].public_key())
            return dict(reproduced=r is not None, detail=r or "signed normally")
        if obligation.startswith("recursive_"):
            shape = params.get("shape", "one")
            flags = cex.get("flags") or {}
            flags = {k: dict(v) if isinstance(v, dict) else v for k, v in flags.items()}
            import hashlib

            # real keys per node
            import shutil

            for n, (kname, _, _) in NODE_KEYS.items():
                alg = (flags.get(n) or {}).get("alg") or _inherited_alg(shape, flags, n)
                shutil.copy(os.path.join(d, f"key_{alg}.pem"), os.path.join(d, kname + ".pem"))

            def build(node):
                f = flags[node]
                manifest = cbor2.dumps({1: 1, 2: len(node)})
                digest = cbor2.dumps([-16, hashlib.sha256(cbor2.dumps(manifest)).digest()])
                members = {2: cbor2.dumps([digest]), 3: manifest, "#unnamed-payload": b"pp"}
                for ch in SHAPES[shape][node]:
                    cf = flags[ch]
                    if not cf.get("present"):
                        continue
                    if cf.get("is_env"):
                        members[ch + ".suit"] = build(ch)
                    elif cf.get("garbage_kind", 0) == 0:
                        members[ch + ".suit"] = b"\x01\x02"
                    else:
                        members[ch + ".suit"] = 5
                b = cbor2.dumps(cbor2.CBORTag(107, members))
                if f.get("pre_signed"):
                    b = c04._real_sign(CS, d, b, "EdDSA", "eddsa", 99)
                return b

            inb = build("root")
            cfg = build_config(shape, flags)
            cfg["sign-script"] = os.path.join(REPO, "ncs", "sign_script.py")
            cfg["kms-script"] = os.path.join(REPO, "ncs", "basic_kms.py")
            def setctx(c):
                c["context"] = d
                for ch in (c.get("dependencies") or {}).values():
                    setctx(ch)

            setctx(cfg)
            fin, fout, fcfg = os.path.join(d, "rin.suit"), os.path.join(d, "rout.suit"), os.path.join(d, "cfg.json")
            open(fin, "wb").write(inb)
            json.dump(cfg, open(fcfg, "w"))
            try:
                CS.main(sign_subcommand="recursive", input_envelope=fin, output_envelope=fout, configuration=fcfg)
                raised = None
            except Exception as e:  # noqa
                raised = f"{type(e).__name__}: {e}"
            exp_err = _expect_error(shape, flags)
            out_exists = os.path.exists(fout)
            if exp_err:
                return dict(reproduced=not (raised and not out_exists), detail=f"expected refusal; raised={raised}, output exists={out_exists}")
            if raised:
                fid = "F7" if raised.startswith("KeyError") and any(f.get("omit") and not f.get("has_key") for f in flags.values()) else None
                return dict(reproduced=True, detail=f"valid configuration refused: {raised}", finding=fid)
            bad = _verify_tree(c04, cbor2, shape, flags, inb, open(fout, "rb").read(), keys, "root", "eddsa")
            return dict(reproduced=bad is not None, detail=bad or "every level signed per the configuration")
        return dict(reproduced=None, detail="unknown obligation")
    finally:
        import shutil

        shutil.rmtree(d, ignore_errors=True)


def _inherited_alg(shape, flags, node):
    parent = {ch: p for p, chs in SHAPES[shape].items() for ch in chs}
    n = node
    while n in parent:
        n = parent[n]
        a = (flags.get(n) or {}).get("alg")
        if a:
            return a
    return "eddsa"


def _expect_error(shape, flags):
    for n in SHAPES[shape]:
        f = flags[n]
        if not f.get("omit") and not f.get("has_key"):
            return True
        if n != "root" and (not f.get("present") or not f.get("is_env")):
            return True
        if f.get("pre_signed") and not f.get("omit") and f.get("action", "error") == "error":
            return True
    return False


def _verify_tree(c04, cbor2, shape, flags, inb, outb, keys, node, inherited):
    f = flags[node]
    alg = f.get("alg") or inherited
    a, b = cbor2.loads(inb), cbor2.loads(outb)
    if list(a.value.keys()) != list(b.value.keys()):
        return f"{node}: member set changed"
    for k in a.value:
        if k == 2 or (isinstance(k, str) and k[:-5] in SHAPES[shape][node]):
            continue
        if a.value[k] != b.value[k]:
            return f"{node}: member {k!r} changed"
    for ch in SHAPES[shape][node]:
        r = _verify_tree(c04, cbor2, shape, flags, a.value[ch + ".suit"], b.value[ch + ".suit"], keys, ch, alg)
        if r:
            return r
    wa, wb = cbor2.loads(a.value[2]), cbor2.loads(b.value[2])
    cose = {"eddsa": "cose-alg-eddsa", "es-256": "cose-alg-es-256", "es-384": "cose-alg-es-384"}[alg]
    if f.get("omit") or (f.get("pre_signed") and f.get("action") == "skip"):
        return None if wa == wb else f"{node}: wrapper changed although the node is not to be signed"
    stripped = dict(a.value)
    for ch in SHAPES[shape][node]:
        stripped[ch + ".suit"] = b.value[ch + ".suit"]
    if f.get("pre_signed"):
        stripped[2] = cbor2.dumps(wa[:1])
    return c04.verify_signed(cbor2.dumps(cbor2.CBORTag(107, stripped)), outb, alg, cose, NODE_KEYS[node][2], keys[alg].public_key()) and f"{node}: " + str(c04.verify_signed(cbor2.dumps(cbor2.CBORTag(107, stripped)), outb, alg, cose, NODE_KEYS[node][2], keys[alg].public_key()))
