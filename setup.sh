#!/bin/sh
# Build the overlay venv the checks run in: /venv (the repository's own environment) + crosshair-tool,
# z3-solver, cvc5 from the offline wheelhouse.  Idempotent; no network.
set -e
HERE="$(cd "$(dirname "$0")" && pwd)"
VENV="${VERIF_VENV:-$HERE/.venv}"
if [ ! -x "$VENV/bin/python" ] || ! "$VENV/bin/python" -c "import crosshair, z3" 2>/dev/null; then
    if ! mkdir -p "$VENV" 2>/dev/null || [ ! -w "$VENV" ]; then
        VENV="${TMPDIR:-/tmp}/verif-venv"
    fi
    rm -rf "$VENV"
    /venv/bin/python -m venv "$VENV"
    SP="$("$VENV/bin/python" -c 'import sysconfig; print(sysconfig.get_paths()["purelib"])')"
    echo "import site; site.addsitedir('/venv/lib/python3.12/site-packages')" > "$SP/_overlay.pth"
    PIP_NO_INDEX=1 "$VENV/bin/pip" install -q --no-index --find-links /opt/veriftools/wheels crosshair-tool z3-solver cvc5
fi
"$VENV/bin/python" -c "import crosshair, z3, cbor2; print('verif venv ok:', crosshair.__version__, z3.get_version_string())"
echo "$VENV" > "$HERE/.venv_path" 2>/dev/null || true
