#!/usr/bin/env python3
"""Compare a junit xml of the repository's test run with BASELINE.json stable_pass: every stable test must still pass."""
import json, sys, xml.etree.ElementTree as ET
base = json.load(open('/root/.vp/BASELINE.json'))
stable = set(base['stable_pass'])
t = ET.parse(sys.argv[1]).getroot()
res = {}
for tc in t.iter('testcase'):
    name = f"{tc.get('classname')}::{tc.get('name')}"
    ok = not any(c.tag in ('failure', 'error', 'skipped') for c in tc)
    res[name] = ok
missing = [s for s in stable if s not in res]
failed = [s for s in stable if s in res and not res[s]]
newly = [n for n, ok in res.items() if ok and n not in stable]
print(f"stable={len(stable)} ran={len(res)} stable_failed={len(failed)} stable_missing={len(missing)} newly_passing={len(newly)}")
for f in failed[:20]: print("FAILED", f)
for m in missing[:20]: print("MISSING", m)
sys.exit(1 if failed or missing else 0)
