#!/usr/bin/env python3
"""Regenerate MANIFEST.json from the property modules present under props/ (run from /verif)."""
import importlib, json, os, sys
HERE = os.path.dirname(os.path.dirname(os.path.abspath(__file__)))
sys.path.insert(0, HERE)
props = [json.loads(l) for l in open(os.path.join(HERE, "properties.jsonl"))]
BASE = "cd /repo && /venv/bin/python -m pytest -ra -q -p no:cacheprovider --timeout=900 --continue-on-collection-errors"
NA_REASONS = json.load(open(os.path.join(HERE, "tools", "not_applicable.json"))) if os.path.exists(os.path.join(HERE, "tools", "not_applicable.json")) else {}
checks, na = [], []
for p in props:
    pid = p["id"]
    path = os.path.join(HERE, "props", pid.lower() + ".py")
    if not os.path.exists(path) or pid in NA_REASONS:
        na.append({"property_id": pid, "reason": NA_REASONS.get(pid, "no solver-based check registered yet in this round; design in DESIGN.md section 5")})
        continue
    src = open(path).read()
    ns = {}
    # META is a literal-ish dict; import the module (cheap: heavy imports are lazy)
    mod = importlib.import_module("props." + pid.lower())
    M = mod.META
    checks.append({
        "property_id": pid,
        "quick_cmd": f"./check {pid} --tier quick",
        "thorough_cmd": f"./check {pid} --tier thorough",
        "evidence_file": f"/verif/evidence/{pid}.json",
        "replay_cmd_template": f"./check {pid} --replay {{path}}",
        "engine": M.get("engine", "E1 CrossHair path-exhaustive symbolic execution (z3)"),
        "level_claimed": {
            "category": "other",
            "text": M.get("level_text", "Bounded symbolic execution of the real functions: every path within the stated bounds is decided by the SMT solver; holds for all values inside the bounds, nothing is claimed outside."),
            "design_ref": f"DESIGN.md section 5, {pid}",
        },
        "level_note": M.get("level_note", "; ".join(M.get("stubs", []) + M.get("outside", [])))[:3000],
        "technique": M.get("technique", "solver-based bounded symbolic execution of the real code (CrossHair/z3), counterexamples replayed on unpatched code"),
    })
man = {
    "version": 1,
    "setup_cmd": "sh ./setup.sh",
    "hooks": {
        "guard": "SUIT_GENERATOR_VERIF",
        "enable": "none needed: all stubs are applied by the harnesses at import time; no source hooks in /repo",
        "baseline_off_cmd": BASE,
        "source_commits": [],
        "add_only": True,
    },
    "engines": [
        {"name": "E1", "path": "vlib/chx.py", "serves_properties": [c["property_id"] for c in checks], "kind_free_text": "CrossHair 0.0.110 driven through its API: path-exhaustive symbolic execution of the real Python functions, z3 decides every branch; library models in vlib/cbormodel.py, vlib/stubs.py"},
        {"name": "E2", "path": "vlib/kernsym.py", "serves_properties": ["C10", "C12", "C20", "C04", "C15"], "kind_free_text": "own symbolic interpreter over the AST of the real functions (z3 Int, byte ropes, token strings), VC per path"},
        {"name": "L", "path": "vlib/lemmas.py", "serves_properties": ["C10", "C08", "C02"], "kind_free_text": "direct SMT lemmas (z3/cvc5) about environment models and finite tables"},
    ],
    "checks": checks,
    "not_applicable": na,
    "notes": "Exit codes of ./check: 0 ok, 1 VIOLATION (reproduced on unpatched code), 2 inconclusive, 3 harness error. VERIF_REPO overrides the repository root (default /repo).",
}
json.dump(man, open(os.path.join(HERE, "MANIFEST.json"), "w"), indent=1)
print("checks:", [c["property_id"] for c in checks], "n/a:", [n["property_id"] for n in na])
