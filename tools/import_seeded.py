#!/usr/bin/env python3
"""Import sub-agent seeded changes: tools/import_seeded.py <ID> [<ID> ...]
For /tmp/wt_<ID>/seeded_<ID>_<i>: confirm on a scratch copy of /repo (current HEAD) that demo.py passes without and fails
with the patch, then store it as /verif/seeded/<ID>_<i>/ with the confirmation recorded in meta.json."""
import json, os, shutil, subprocess, sys, tempfile
HERE = os.path.dirname(os.path.dirname(os.path.abspath(__file__)))

def scratch():
    d = tempfile.mkdtemp(prefix="verif-seed-")
    subprocess.run(["git", "-C", "/repo", "worktree", "add", "-q", "--detach", os.path.join(d, "wt"), "HEAD"], check=True)
    return d, os.path.join(d, "wt")

def run_demo(wt, demo):
    p = subprocess.run(["/venv/bin/python", demo], cwd=tempfile.gettempdir(), env=dict(os.environ, PYTHONPATH=wt), capture_output=True, text=True, timeout=1800)
    return p.returncode, (p.stdout + p.stderr)[-400:]

for pid in sys.argv[1:]:
    for i in (1, 2, 3, 4):
        src = f"/tmp/wt_{pid}/seeded_{pid}_{i}"
        if not os.path.isdir(src):
            continue
        d, wt = scratch()
        try:
            rc0, out0 = run_demo(wt, os.path.join(src, "demo.py"))
            ap = subprocess.run(["git", "-C", wt, "apply", os.path.join(src, "patch.diff")], capture_output=True, text=True)
            if ap.returncode:
                print(pid, i, "PATCH DOES NOT APPLY to current HEAD:", ap.stderr[-200:]); continue
            rc1, out1 = run_demo(wt, os.path.join(src, "demo.py"))
            ok = rc0 == 0 and rc1 != 0
            print(pid, i, "clean rc", rc0, "patched rc", rc1, "OK" if ok else "REJECTED", "" if ok else (out0 + " | " + out1)[-300:])
            if not ok:
                continue
            dst = os.path.join(HERE, "seeded", f"{pid}_{i}")
            shutil.rmtree(dst, ignore_errors=True)
            shutil.copytree(src, dst)
            meta = json.load(open(os.path.join(dst, "meta.json")))
            meta["confirmed"] = {"demo_on_clean_head": rc0, "demo_with_patch": rc1, "repo_head": subprocess.run(["git", "-C", "/repo", "rev-parse", "--short", "HEAD"], capture_output=True, text=True).stdout.strip(),
                                 "tests": "sub-agent compared failing test ids with and without the change (identical); re-run by tools/seeded_tests.py"}
            json.dump(meta, open(os.path.join(dst, "meta.json"), "w"), indent=1)
        finally:
            subprocess.run(["git", "-C", "/repo", "worktree", "remove", "--force", wt])
            shutil.rmtree(d, ignore_errors=True)
