#!/usr/bin/env python3
"""Mutation self-test: apply each seeded mutant of selftest/mutants.json to a scratch copy of the repository's
packages (under $TMPDIR, removed afterwards), run the property's check with VERIF_REPO pointing at the copy and
report whether it exits 1 with a VIOLATION line.   usage: tools/selftest.py [PROP ...] [--tier quick] [--jobs N]
Also runs /verif/seeded/<id>/patch.diff changes (git-style diffs) the same way."""
import argparse, concurrent.futures as cf, json, os, shutil, subprocess, sys, tempfile, time
HERE = os.path.dirname(os.path.dirname(os.path.abspath(__file__)))
REPO = "/repo"
SNAP = HERE

def make_copy():
    d = tempfile.mkdtemp(prefix="verif-mut-")
    for pkg in ("suit_generator", "ncs", "build_configuration"):
        shutil.copytree(os.path.join(REPO, pkg), os.path.join(d, pkg), ignore=shutil.ignore_patterns("__pycache__"))
    for f in ("tests",):
        pass
    return d

def run_one(m, tier):
    d = make_copy()
    try:
        if "patch" in m:
            p = subprocess.run(["git", "apply", "--unsafe-paths", "--directory", d, m["patch"]], cwd=d, capture_output=True, text=True)
            if p.returncode:
                # fall back to patch(1)
                p = subprocess.run(["patch", "-p1", "-i", m["patch"]], cwd=d, capture_output=True, text=True)
                if p.returncode:
                    return m, None, "patch does not apply: " + p.stderr[-300:] + p.stdout[-300:], 0
        else:
            path = os.path.join(d, m["file"])
            src = open(path).read()
            if src.count(m["old"]) != 1:
                return m, None, f"pattern occurs {src.count(m['old'])} times", 0
            open(path, "w").write(src.replace(m["old"], m["new"]))
            for x in m.get("extra", []):
                path = os.path.join(d, x["file"])
                src = open(path).read()
                if src.count(x["old"]) != 1:
                    return m, None, f"extra pattern occurs {src.count(x['old'])} times", 0
                open(path, "w").write(src.replace(x["old"], x["new"]))
        env = dict(os.environ, VERIF_REPO=d, PYTHONDONTWRITEBYTECODE="1", VERIF_VENV=os.environ.get("VERIF_VENV", os.path.join(HERE, ".venv")))
        t0 = time.time()
        cmd = [os.path.join(SNAP, "check"), m["property"], "--tier", tier, "--no-evidence"]
        if m.get("only"):
            cmd += ["--only", m["only"]]
        p = subprocess.run(cmd, cwd=SNAP, env=env, capture_output=True, text=True, timeout=7200)
        lines = [l for l in p.stdout.splitlines() if l.startswith(("VIOLATION", "INCONCLUSIVE", "HARNESS-ERROR", "KNOWN"))]
        return m, p.returncode, "; ".join(lines)[:400], time.time() - t0
    finally:
        shutil.rmtree(d, ignore_errors=True)

def main():
    ap = argparse.ArgumentParser()
    ap.add_argument("props", nargs="*")
    ap.add_argument("--tier", default="quick")
    ap.add_argument("--jobs", type=int, default=4)
    ap.add_argument("--seeded", action="store_true", help="also run seeded/<id>/patch.diff")
    ap.add_argument("--name")
    a = ap.parse_args()
    muts = json.load(open(os.path.join(HERE, "selftest", "mutants.json")))
    # run from a snapshot of /verif so that edits made while the self-test runs cannot disturb it (CrossHair re-reads source lines)
    global SNAP
    SNAP = tempfile.mkdtemp(prefix="verif-snap-")
    subprocess.run(["rsync", "-a", "--exclude", ".venv", "--exclude", ".git", "--exclude", "replays", "--exclude", "evidence", "--exclude", "__pycache__", HERE + "/", SNAP + "/"], check=True)
    os.makedirs(os.path.join(SNAP, "replays"), exist_ok=True)
    if a.seeded:
        sd = os.path.join(HERE, "seeded")
        for n in sorted(os.listdir(sd)):
            mp = os.path.join(sd, n, "meta.json")
            if os.path.exists(mp):
                meta = json.load(open(mp))
                muts.append({"property": meta["property"], "name": "seeded/" + n, "patch": os.path.join(sd, n, "patch.diff")})
    if a.props:
        want = {p.upper() for p in a.props}
        muts = [m for m in muts if m["property"] in want]
    if a.name:
        muts = [m for m in muts if a.name in m["name"]]
    killed = 0
    with cf.ThreadPoolExecutor(max_workers=a.jobs) as ex:
        for m, rc, info, dt in ex.map(lambda m: run_one(m, a.tier), muts):
            ok = rc == 1
            killed += ok
            print(f"{'KILLED ' if ok else 'MISSED '} {m['property']} {m['name']:<40} rc={rc} {dt:.0f}s {info[:200]}", flush=True)
    print(f"mutants killed {killed}/{len(muts)}")
    shutil.rmtree(SNAP, ignore_errors=True)
    return 0 if killed == len(muts) else 1

if __name__ == "__main__":
    sys.exit(main())
