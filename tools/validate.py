#!/usr/bin/env python3
"""python3-vt tools/validate.py : validate MANIFEST.json and evidence/*.json against the given schemas."""
import glob, json, jsonschema, sys
ok = True
jsonschema.validate(json.load(open('/verif/MANIFEST.json')), json.load(open('/root/.vp/MANIFEST.schema.json')))
S = json.load(open('/root/.vp/EVIDENCE.schema.json'))
for f in sorted(glob.glob('/verif/evidence/*.json')):
    try:
        jsonschema.validate(json.load(open(f)), S)
    except Exception as e:
        ok = False; print("INVALID", f, str(e)[:300])
print("valid" if ok else "INVALID")
sys.exit(0 if ok else 1)
