#!/usr/bin/env python3
"""For each /verif/seeded/<id>/patch.diff: apply to a scratch worktree of /repo HEAD, run the repository's test suite and
confirm every baseline-stable test still passes.  Records the result in meta.json.  usage: tools/seeded_tests.py [name-substr] [--jobs N]"""
import concurrent.futures as cf, json, os, shutil, subprocess, sys, tempfile
HERE = os.path.dirname(os.path.dirname(os.path.abspath(__file__)))
args = [a for a in sys.argv[1:] if not a.startswith("--")]
jobs = 6
def one(name):
    sd = os.path.join(HERE, "seeded", name)
    meta = json.load(open(os.path.join(sd, "meta.json")))
    if meta.get("confirmed", {}).get("stable_tests_pass") is True and "--force" not in sys.argv:
        return name, "already confirmed"
    d = tempfile.mkdtemp(prefix="verif-seedtest-")
    wt = os.path.join(d, "wt")
    subprocess.run(["git", "-C", "/repo", "worktree", "add", "-q", "--detach", wt, "HEAD"], check=True)
    try:
        ap = subprocess.run(["git", "-C", wt, "apply", os.path.join(sd, "patch.diff")], capture_output=True, text=True)
        if ap.returncode:
            return name, "patch does not apply"
        xml = os.path.join(d, "r.xml")
        subprocess.run(["/venv/bin/python", "-m", "pytest", "-q", "-p", "no:cacheprovider", "--timeout=900", "--continue-on-collection-errors", f"--junitxml={xml}"], cwd=wt, env=dict(os.environ, PYTHONPATH=wt), capture_output=True, text=True, timeout=3600)
        p = subprocess.run([sys.executable, os.path.join(HERE, "tools", "baseline_compare.py"), xml], capture_output=True, text=True)
        ok = p.returncode == 0
        meta.setdefault("confirmed", {})["stable_tests_pass"] = ok
        meta["confirmed"]["stable_tests_detail"] = p.stdout.strip().splitlines()[-1][:200] if not ok else p.stdout.strip().splitlines()[0][:200]
        json.dump(meta, open(os.path.join(sd, "meta.json"), "w"), indent=1)
        return name, ("tests ok: " if ok else "TESTS FAIL: ") + p.stdout.strip()[:200]
    finally:
        subprocess.run(["git", "-C", "/repo", "worktree", "remove", "--force", wt])
        shutil.rmtree(d, ignore_errors=True)
names = sorted(n for n in os.listdir(os.path.join(HERE, "seeded")) if os.path.exists(os.path.join(HERE, "seeded", n, "meta.json")) and (not args or any(a in n for a in args)))
with cf.ThreadPoolExecutor(max_workers=jobs) as ex:
    for name, res in ex.map(one, names):
        print(name, res, flush=True)
