"""Minimal valid description values for every name of every key space (used by C08, C02, C17 skeletons).
Written against the description language as documented by the examples; names come from vlib/registry.py."""
from __future__ import annotations

from vlib import registry as R

DIGEST = {"suit-digest-algorithm-id": "cose-alg-sha-256", "suit-digest-bytes": "aa" * 32}
UUID_RAW = {"raw": "d622bafd4337518590bc6368cda7fbca"}
SEQ = [{"suit-directive-set-component-index": 1}, {"suit-condition-image-match": ["suit-send-record-failure"]}]
HEADER = {"suit-cose-algorithm-id": "cose-alg-es-256", "suit-cose-key-id": 7}
SIGN1 = {"CoseSign1Tagged": {"protected": HEADER, "unprotected": {}, "payload": None, "signature": "bb" * 8}}
AUTH = {"SuitDigest": DIGEST}
AUTH_SIGNED = {"SuitDigest": DIGEST, "SuitAuthentication1": SIGN1}
TEXT = {"en": {"suit-text-manifest-description": "d", '["M", 2]': {"suit-text-vendor-name": "v"}}}
MANIFEST_MIN = {"suit-manifest-version": 1, "suit-manifest-sequence-number": 3}
ENCRYPT = {
    "CoseEncryptTagged": {
        "protected": {"suit-cose-algorithm-id": "cose-alg-aes-gcm-256"},
        "unprotected": {"suit-cose-iv": "cc" * 12},
        "ciphertext": None,
        "recipients": [{"protected": {}, "unprotected": {"suit-cose-algorithm-id": "cose-alg-direct", "suit-cose-key-id": 9}, "ciphertext": None}],
    }
}


def sample(space, name):
    if space == "envelope":
        return {
            "suit-delegation": [[SIGN1]],
            "suit-authentication-wrapper": AUTH,
            "suit-manifest": MANIFEST_MIN,
            "suit-text": TEXT,
        }.get(name, SEQ)
    if space == "manifest":
        if name in ("suit-manifest-version",):
            return 1
        if name == "suit-manifest-sequence-number":
            return 5
        if name == "suit-common":
            return {"suit-components": [["M", 2]]}
        if name == "suit-reference-uri":
            return "http://x"
        if name == "suit-manifest-component-id":
            return ["I", UUID_RAW]
        if name == "suit-current-version":
            return [1, 2, 3]
        if name == "suit-text":
            return DIGEST
        return SEQ
    if space == "common":
        return {"suit-dependencies": {"0": {"suit-dependency-prefix": ["M", 1]}}, "suit-components": [["M", 2]], "suit-shared-sequence": SEQ}[name]
    if space == "dependency-metadata":
        return ["M", 1]
    if space == "conditions":
        return ["suit-send-record-success"]
    if space == "directives":
        if name == "suit-directive-set-component-index":
            return 2
        if name == "suit-directive-try-each":
            return [SEQ, []]
        if name == "suit-directive-run-sequence":
            return SEQ
        if name in ("suit-directive-set-parameters", "suit-directive-override-parameters"):
            return {"suit-parameter-uri": "u"}
        return ["suit-send-sysinfo-failure"]
    if space == "parameters":
        return {
            "suit-parameter-vendor-identifier": UUID_RAW,
            "suit-parameter-class-identifier": UUID_RAW,
            "suit-parameter-device-identifier": UUID_RAW,
            "suit-parameter-image-digest": DIGEST,
            "suit-parameter-component-slot": 1,
            "suit-parameter-source-component": 2,
            "suit-parameter-strict-order": True,
            "suit-parameter-soft-failure": False,
            "suit-parameter-image-size": {"raw": 1024},
            "suit-parameter-content": "dead",
            "suit-parameter-encryption-info": ENCRYPT,
            "suit-parameter-uri": "#app",
            "suit-parameter-invoke-args": {"suit-synchronous-invoke": True, "suit-timeout": 5},
            "suit-parameter-version": {"suit-condition-version-comparison-greater": [1, 0]},
        }[name]
    if space == "version-comparison":
        return [1, 2, -1]
    if space == "invoke-args":
        return True if name == "suit-synchronous-invoke" else 10
    if space == "text-component-keys":
        return "txt"
    if space == "header-keys":
        return {"suit-cose-algorithm-id": "cose-alg-eddsa", "suit-cose-key-id": 12, "suit-cose-iv": "0102"}[name]
    if space == "cwt-claims":
        if name in ("Issuer", "Subject", "Audience"):
            return "who"
        if name == "CW ID":
            return "0a0b"
        return 1700000000
    raise KeyError((space, name))


def classes():
    """key space -> (repository class, kind) ; kind in {'kv', 'kvtuple', 'enum'}."""
    import suit_generator.suit.envelope as EN
    import suit_generator.suit.manifest as MF
    import suit_generator.suit.security as SE

    return {
        "envelope": (EN.SuitEnvelope, "kv"),
        "manifest": (MF.SuitManifest, "kv"),
        "common": (MF.SuitCommon, "kv"),
        "dependency-metadata": (MF.SuitDependencyMetadata, "kv"),
        "conditions": (MF.SuitCondition, "kvtuple"),
        "directives": (MF.SuitDirective, "kvtuple"),
        "parameters": (MF.SuitParameters, "kv"),
        "version-comparison": (MF.SuitParameterVersion, "kvtuple"),
        "invoke-args": (MF.SuitParameterInvokeArgs, "kv"),
        "policy-bits": (MF.SuitRepPolicyBits, "enum"),
        "text-keys": (MF.SuitTextKeys, "enum"),
        "text-component-keys": (MF.SuitTextComponentKeys, "kv"),
        "header-keys": (SE.SuitHeaderMap, "kv"),
        "hash-algorithms": (SE.SuitCoseHashAlg, "enum"),
        "cose-algorithms": (SE.SuitcoseAlg, "enum"),
        "cwt-claims": (SE.SuitCwtPayload, "kv"),
    }


def ref_value(space, name, ctx):
    """Reference CBOR value (python object) of sample(space, name) in its key space."""
    from vlib import refenc as E

    s = sample(space, name)
    if space == "envelope":
        if name == "suit-authentication-wrapper":
            return E.authentication(s, ctx)
        if name == "suit-manifest":
            return E.BW(E.manifest(s, ctx))
        if name == "suit-text":
            return E.BW(E.text_map(s, ctx))
        if name == "suit-delegation":
            return [[E.auth_block(b) for b in chain] for chain in s]
        return E.BW(E.command_sequence(s, ctx))
    if space == "manifest":
        return dict(E.manifest({name: s}, ctx).items())[R.MANIFEST[name]]
    if space == "common":
        return dict(E.common({name: s}, ctx).items())[R.COMMON[name]]
    if space == "dependency-metadata":
        return E.component_id(s, ctx)
    if space in ("conditions", "directives"):
        return E.command_sequence([{name: s}], ctx)[1]
    if space == "parameters":
        return dict(E.parameters({name: s}, ctx).items())[R.PARAMETERS[name]]
    if space == "version-comparison":
        return list(s)
    if space in ("invoke-args", "text-component-keys"):
        return s
    if space == "header-keys":
        return dict(E.header_map({name: s}).items())[R.HEADER_KEYS[name]]
    if space == "cwt-claims":
        return dict(E.cwt({name: s}).items())[R.CWT_CLAIMS[name]]
    raise KeyError(space)
