"""Hex provenance pair (DESIGN.md 3.3): `bytes.hex()` of symbolic bytes yields a HexStr that remembers its source;
`binascii.a2b_hex(HexStr)` returns the source.  Contract validated concretely: a2b_hex(b.hex().upper()) == b."""
from __future__ import annotations

import binascii as _binascii


class HexStr(str):
    def __new__(cls, prov):
        s = str.__new__(cls, "00" * len(prov))
        s.prov = prov
        return s

    def upper(self):
        return self

    def lower(self):
        return self

    def __eq__(self, other):
        if isinstance(other, HexStr):
            return self.prov == other.prov
        if isinstance(other, str):
            try:
                return self.prov == bytes.fromhex(other)
            except ValueError:
                return False
        return NotImplemented

    def __ne__(self, other):
        r = self.__eq__(other)
        return r if r is NotImplemented else not r

    __hash__ = str.__hash__


class BinasciiProxy:
    Error = _binascii.Error
    Incomplete = _binascii.Incomplete

    @staticmethod
    def a2b_hex(x):
        prov = getattr(x, "prov", None)
        if prov is not None:
            return prov
        return _binascii.a2b_hex(x)

    unhexlify = a2b_hex

    def __getattr__(self, k):
        return getattr(_binascii, k)


def install(*modules):
    """Rebind `binascii` in the given repository modules and make symbolic bytes' .hex() provenance-carrying."""
    for m in modules:
        m.binascii = BinasciiProxy()
    from crosshair.libimpl import builtinslib as B

    def hex_(self, *a):
        # a byte string whose elements are all concrete (e.g. a slice of a partly symbolic buffer that only covers concrete
        # bytes) gets its real hex text: it may be used as a dict key (cmd_image._find_role)
        from crosshair.tracers import NoTracing

        with NoTracing():
            try:
                elems = list(self.inner)
                concrete = all(type(x) is int for x in elems)
            except Exception:
                concrete = False
            if concrete:
                return bytes(elems).hex(*a)
        return HexStr(self)

    B.BytesLike.hex = hex_
