"""python -m vlib.seedrun <area> <fix-json> <cex-json>: encode one C02 grammar-area description with the REAL code and print the hex.
Run under different PYTHONHASHSEED values by the C18 replay (fresh interpreter per seed)."""
import json
import sys


def main():
    area, fix, cex = sys.argv[1], json.loads(sys.argv[2]), json.loads(sys.argv[3])
    from vlib import repoenv
    from vlib.replay import decode

    repoenv.prepare_concrete()
    import suit_generator.suit.envelope as EN
    import suit_generator.suit.manifest as MF
    import suit_generator.suit.security as SE
    from props import c02

    class E:
        pass

    e = E()
    e.MF, e.SE, e.EN = MF, SE, EN
    c = decode(cex)
    for k, v in fix.items():
        c.setdefault(k + "#", v)
    L = c02.CexLeaves(c)
    L.fixed = fix
    clsname, fn, d = c02.build(area, L, ("F10",))
    print("HEX " + c02.real_encode(e, clsname, d).hex())


if __name__ == "__main__":
    main()
