"""Pure-Python model of the part of cbor2 (6.x) that suit-generator uses.

Purpose: cbor2 is a C extension; CrossHair realizes every symbolic value that crosses into it.  This model
implements the same contract with `+ * // %` and comparisons only, so integers, byte strings and text stay
symbolic.  It mirrors cbor2 6's immutability rule (inside a tag, and for array-valued map keys, arrays decode to
tuples and maps to `frozendict`, which is not a `dict`; `CBORTag.value` is read-only).

Provenance memo: `dumps(v)` remembers `id(result) -> v`; `loads(b)` on that very object returns the
cbor2-normalised copy of `v` (lemma L2 in vlib/lemmas.py: head/unhead are inverse and shortest).  `plain_loads`
never uses the memo (oracles use it).

The module works under plain CPython (differential validation against the real cbor2) and under CrossHair.
"""
from __future__ import annotations

import struct as _struct
from collections.abc import Mapping

try:  # symbolic-awareness is optional
    from crosshair.tracers import NoTracing as _NoTracing, is_tracing as _is_tracing
    from crosshair.core import CrossHairValue as _CHV
except Exception:  # pragma: no cover
    _NoTracing = None
    _CHV = ()

    def _is_tracing():
        return False


class CBORError(Exception):
    pass


class CBORDecodeError(CBORError):
    pass


class CBORDecodeEOF(CBORDecodeError):
    pass


class CBOREncodeError(CBORError):
    pass


class CBOREncodeTypeError(CBOREncodeError):
    pass


class CBORTag:
    """Mirror of cbor2.CBORTag (6.x): `tag` and `value` are read-only."""

    __slots__ = ("_t", "_v")

    def __init__(self, tag, value):
        if not isinstance(tag, int) or isinstance(tag, bool):
            raise TypeError("CBORTag tags must be integer numbers")
        object.__setattr__(self, "_t", tag)
        object.__setattr__(self, "_v", value)

    @property
    def tag(self):
        return self._t

    @property
    def value(self):
        return self._v

    def __setattr__(self, k, v):
        raise AttributeError(f"attribute '{k}' of 'cbor2.CBORTag' objects is not writable")

    def __eq__(self, other):
        if isinstance(other, CBORTag):
            return self._t == other._t and self._v == other._v
        return NotImplemented

    def __hash__(self):
        return hash((self._t, self._v))

    def __repr__(self):
        return f"CBORTag({self._t!r}, {self._v!r})"


class frozendict(Mapping):
    """Mirror of cbor2.frozendict: a Mapping, not a dict, no item assignment, no pop."""

    __slots__ = ("_p",)

    def __init__(self, pairs=()):
        if isinstance(pairs, Mapping):
            pairs = list(pairs.items())
        object.__setattr__(self, "_p", list(pairs))

    def __getitem__(self, k):
        for kk, vv in self._p:
            if kk == k:
                return vv
        raise KeyError(k)

    def __iter__(self):
        return iter([k for k, _ in self._p])

    def __len__(self):
        return len(self._p)

    def __contains__(self, k):
        for kk, _ in self._p:
            if kk == k:
                return True
        return False

    def items(self):
        return list(self._p)

    def keys(self):
        return [k for k, _ in self._p]

    def values(self):
        return [v for _, v in self._p]

    def __eq__(self, other):
        if isinstance(other, (frozendict, dict)):
            return list(self.items()) == list(other.items()) or dict_eq(self, other)
        return NotImplemented

    def __hash__(self):
        return hash(tuple((k, v) for k, v in self._p))

    def __setattr__(self, k, v):
        raise AttributeError("frozendict is immutable")

    def __repr__(self):
        return "frozendict({" + ", ".join(f"{k!r}: {v!r}" for k, v in self._p) + "})"


def dict_eq(a, b):
    if len(a) != len(b):
        return False
    for k in a:
        if k not in b or a[k] != b[k]:
            return False
    return True


class PairDict(dict):
    """A `dict` (for isinstance) that never hashes its keys: backed by a pair list, compares with ==.

    Needed because hashing a symbolic int/str realizes it under CrossHair.  Only the operations the repository
    and the harnesses use are provided; everything else raises so a silent fallback to real dict storage is
    impossible.
    """

    def __init__(self, pairs=()):
        dict.__init__(self)
        if isinstance(pairs, Mapping):
            pairs = list(pairs.items())
        self._p = [(k, v) for k, v in pairs]

    def _idx(self, k):
        for i, (kk, _) in enumerate(self._p):
            if kk == k:
                return i
        return -1

    def __getitem__(self, k):
        i = self._idx(k)
        if i < 0:
            raise KeyError(k)
        return self._p[i][1]

    def __setitem__(self, k, v):
        i = self._idx(k)
        if i < 0:
            self._p.append((k, v))
        else:
            self._p[i] = (self._p[i][0], v)

    def __delitem__(self, k):
        i = self._idx(k)
        if i < 0:
            raise KeyError(k)
        del self._p[i]

    def __contains__(self, k):
        return self._idx(k) >= 0

    def __iter__(self):
        return iter([k for k, _ in self._p])

    def __len__(self):
        return len(self._p)

    def __bool__(self):
        return len(self._p) > 0

    def keys(self):
        return [k for k, _ in self._p]

    def values(self):
        return [v for _, v in self._p]

    def items(self):
        return list(self._p)

    def get(self, k, d=None):
        i = self._idx(k)
        return d if i < 0 else self._p[i][1]

    _MISSING = object()

    def pop(self, k, d=_MISSING):
        i = self._idx(k)
        if i < 0:
            if d is PairDict._MISSING:
                raise KeyError(k)
            return d
        v = self._p[i][1]
        del self._p[i]
        return v

    def update(self, other=(), **kw):
        if isinstance(other, Mapping) or hasattr(other, "items"):
            other = other.items()
        for k, v in other:
            self[k] = v
        for k, v in kw.items():
            self[k] = v

    def copy(self):
        return PairDict(self._p)

    def __eq__(self, other):
        if isinstance(other, (dict, frozendict)):
            return dict_eq(self, other)
        return NotImplemented

    def __ne__(self, other):
        r = self.__eq__(other)
        return r if r is NotImplemented else not r

    __hash__ = None

    def __repr__(self):
        return "PairDict({" + ", ".join(f"{k!r}: {v!r}" for k, v in self._p) + "})"

    def setdefault(self, k, d=None):
        i = self._idx(k)
        if i < 0:
            self._p.append((k, d))
            return d
        return self._p[i][1]

    def clear(self):
        self._p = []

    def popitem(self):
        return self._p.pop()

    def __reduce__(self):
        return (PairDict, (list(self._p),))

    def __deepcopy__(self, memo):
        import copy

        return PairDict([(copy.deepcopy(k, memo), copy.deepcopy(v, memo)) for k, v in self._p])


class SimpleValue:
    """Stand-in for cbor2.CBORSimpleValue / undefined / floats' opaque classes (never produced by the repo)."""

    __slots__ = ("value",)

    def __init__(self, value):
        self.value = value

    def __eq__(self, o):
        return isinstance(o, SimpleValue) and o.value == self.value

    def __hash__(self):
        return hash(("simple", self.value))

    def __repr__(self):
        return f"SimpleValue({self.value})"


class Semantic:
    """Stand-in for the Python objects cbor2 builds from semantic tags (datetime, Fraction, set, UUID, ...).

    It is 'some object that is none of int/bytes/str/list/dict/None/bool and has no .tag'; it encodes back to
    the tagged form.  Only used for untrusted-input skeletons (C17)."""

    __slots__ = ("t", "v")

    def __init__(self, t, v):
        self.t = t
        self.v = v

    def __eq__(self, o):
        return isinstance(o, Semantic) and o.t == self.t and o.v == self.v

    def __hash__(self):
        return hash(("sem", self.t))

    def __repr__(self):
        return f"Semantic({self.t}, {self.v!r})"


# tags that cbor2 6 turns into Python objects (everything else stays a CBORTag)
SEMANTIC_TAGS = frozenset(
    [0, 1, 2, 3, 4, 5, 25, 28, 29, 30, 35, 36, 37, 52, 54, 100, 256, 258, 260, 261, 1004, 43000, 55799]
)

_MEMO: dict = {}
STATS = {"dumps": 0, "loads": 0, "memo_hits": 0, "plain_loads": 0}


def reset():
    _MEMO.clear()


def _symbolic(x) -> bool:
    if _NoTracing is None:
        return False
    with _NoTracing():
        return isinstance(x, _CHV)


# ------------------------------------------------------------------------------------------------ encoder


def head(major: int, n) -> bytes:
    """Shortest-form CBOR head for major type `major` and argument 0 <= n < 2**64."""
    m = major * 32
    if n < 24:
        return bytes([m + n])
    if n < 256:
        return bytes([m + 24, n])
    if n < 65536:
        return bytes([m + 25, n // 256, n % 256])
    if n < 4294967296:
        return bytes([m + 26, n // 16777216, (n // 65536) % 256, (n // 256) % 256, n % 256])
    if n < 18446744073709551616:
        return bytes(
            [
                m + 27,
                n // 72057594037927936,
                (n // 281474976710656) % 256,
                (n // 1099511627776) % 256,
                (n // 4294967296) % 256,
                (n // 16777216) % 256,
                (n // 65536) % 256,
                (n // 256) % 256,
                n % 256,
            ]
        )
    raise CBOREncodeError("integer out of range for a CBOR head")


def _enc(o) -> bytes:
    if o is None:
        return b"\xf6"
    if o is True:
        return b"\xf5"
    if o is False:
        return b"\xf4"
    if isinstance(o, bool):  # symbolic bool
        return b"\xf5" if o else b"\xf4"
    if isinstance(o, int):
        if o >= 0:
            if o < 18446744073709551616:
                return head(0, o)
            return _enc_bignum(2, o)
        if o >= -18446744073709551616:
            return head(1, -1 - o)
        return _enc_bignum(3, -1 - o)
    if isinstance(o, (bytes, bytearray)):
        return head(2, len(o)) + bytes(o)
    if isinstance(o, str):
        e = o.encode("utf-8")
        return head(3, len(e)) + e
    if isinstance(o, (list, tuple)):
        r = head(4, len(o))
        for x in o:
            r = r + _enc(x)
        return r
    if isinstance(o, (dict, frozendict)):
        items = list(o.items())
        r = head(5, len(items))
        if _CANONICAL[0]:
            # cbor2 canonical=True: map entries ordered by (length of encoded key, encoded key)
            enc = [(_enc(k), _enc(v)) for k, v in items]
            done = []
            for ek, ev in enc:
                pos = len(done)
                for i, (dk, _) in enumerate(done):
                    if len(ek) < len(dk) or (len(ek) == len(dk) and ek < dk):
                        pos = i
                        break
                done.insert(pos, (ek, ev))
            for ek, ev in done:
                r = r + ek + ev
            return r
        for k, v in items:
            r = r + _enc(k) + _enc(v)
        return r
    if isinstance(o, CBORTag):
        return head(6, o.tag) + _enc(o.value)
    if isinstance(o, Semantic):
        return head(6, o.t) + _enc(o.v)
    if isinstance(o, SimpleValue):
        if o.value < 24:
            return bytes([0xE0 + o.value])
        return bytes([0xF8, o.value])
    if isinstance(o, float):
        return b"\xfb" + _struct.pack(">d", o)
    raise CBOREncodeTypeError(f"cannot serialize type {type(o).__name__}")


def _enc_bignum(tag, n):
    raw = n.to_bytes((n.bit_length() + 7) // 8 or 1, "big")
    return head(6, tag) + head(2, len(raw)) + raw


def plain_dumps(o) -> bytes:
    return _enc(o)


_CANONICAL = [False]
_IGNORED_DUMPS_KW = ("datetime_as_timestamp", "timezone", "default", "date_as_datetime")


def dumps(o, canonical=False, **kw) -> bytes:
    STATS["dumps"] += 1
    for k in kw:
        if k not in _IGNORED_DUMPS_KW:
            raise CBOREncodeError(f"cbor model: dumps option {k!r} is not modelled")
    if canonical:
        _CANONICAL[0] = True
        try:
            b = _enc(o)
        finally:
            _CANONICAL[0] = False
        # canonical output may reorder maps: the provenance memo must return the reordered value
        _MEMO[id(b)] = (b, _dec(b, 0, False, 0)[0])
        return b
    b = _enc(o)
    _MEMO[id(b)] = (b, o)
    return b


def dump(o, fp, **kw):
    fp.write(dumps(o, **kw))


# ------------------------------------------------------------------------------------------------ normaliser


def norm(v, immutable=False):
    """What cbor2.loads(cbor2.dumps(v)) returns."""
    if v is None or isinstance(v, (bool, int, str, float, SimpleValue)):
        return v
    if isinstance(v, bytearray):
        return bytes(v)
    if isinstance(v, bytes):
        return v
    if isinstance(v, (list, tuple)):
        items = [norm(x, immutable) for x in v]
        return tuple(items) if immutable else items
    if isinstance(v, (dict, frozendict)):
        pairs = []
        needs_pairdict = False
        for k, x in v.items():
            nk = norm(k, True)
            nx = norm(x, immutable)
            # duplicate keys: the later one wins, position of the first is kept (dict semantics)
            for i, (ek, _) in enumerate(pairs):
                if ek == nk:
                    pairs[i] = (ek, nx)
                    break
            else:
                pairs.append((nk, nx))
            if _symbolic(nk):
                needs_pairdict = True
        if immutable:
            return frozendict(pairs)
        if needs_pairdict or isinstance(v, PairDict):
            return PairDict(pairs)
        d = {}
        for k, x in pairs:
            d[k] = x
        return d
    if isinstance(v, CBORTag):
        if not _symbolic(v.tag) and v.tag in (28, 256):
            return norm(v.value, immutable)
        if not _symbolic(v.tag) and v.tag == 55799:
            return norm(v.value, True)
        if not _symbolic(v.tag) and v.tag in SEMANTIC_TAGS:
            return Semantic(v.tag, norm(v.value, True))
        return CBORTag(v.tag, norm(v.value, True))
    if isinstance(v, Semantic):
        return Semantic(v.t, norm(v.v, True))
    raise CBOREncodeTypeError(f"cannot serialize type {type(v).__name__}")


# ------------------------------------------------------------------------------------------------ decoder

MAX_DEPTH = 200  # cbor2 6 refuses deeper nesting with CBORDecodeError


def _arg(b, pos, ai):
    """Return (argument or None for indefinite, new pos)."""
    n = len(b)
    if ai < 24:
        return ai, pos
    if ai == 24:
        if pos + 1 > n:
            raise CBORDecodeEOF("premature end of stream")
        return b[pos], pos + 1
    if ai == 25:
        if pos + 2 > n:
            raise CBORDecodeEOF("premature end of stream")
        return b[pos] * 256 + b[pos + 1], pos + 2
    if ai == 26:
        if pos + 4 > n:
            raise CBORDecodeEOF("premature end of stream")
        return ((b[pos] * 256 + b[pos + 1]) * 256 + b[pos + 2]) * 256 + b[pos + 3], pos + 4
    if ai == 27:
        if pos + 8 > n:
            raise CBORDecodeEOF("premature end of stream")
        v = 0
        for i in range(8):
            v = v * 256 + b[pos + i]
        return v, pos + 8
    if ai == 31:
        return None, pos
    raise CBORDecodeError("unknown unsigned integer subtype")


def _dec(b, pos, immutable, depth):
    if depth > MAX_DEPTH:
        raise CBORDecodeError("maximum recursion depth exceeded")
    if pos >= len(b):
        raise CBORDecodeEOF("premature end of stream")
    ib = b[pos]
    major = ib // 32
    ai = ib % 32
    pos += 1
    if major == 7:
        if ai < 20:
            return SimpleValue(ai), pos
        if ai == 20:
            return False, pos
        if ai == 21:
            return True, pos
        if ai == 22:
            return None, pos
        if ai == 23:
            return SimpleValue(23), pos
        if ai == 24:
            if pos + 1 > len(b):
                raise CBORDecodeEOF("premature end of stream")
            if b[pos] < 32:
                raise CBORDecodeError("invalid two-byte simple value")
            return SimpleValue(b[pos]), pos + 1
        if ai == 25:
            if pos + 2 > len(b):
                raise CBORDecodeEOF("premature end of stream")
            return _struct.unpack(">e", bytes(b[pos : pos + 2]))[0], pos + 2
        if ai == 26:
            if pos + 4 > len(b):
                raise CBORDecodeEOF("premature end of stream")
            return _struct.unpack(">f", bytes(b[pos : pos + 4]))[0], pos + 4
        if ai == 27:
            if pos + 8 > len(b):
                raise CBORDecodeEOF("premature end of stream")
            return _struct.unpack(">d", bytes(b[pos : pos + 8]))[0], pos + 8
        if ai == 31:
            # cbor2 6 hands out its internal break marker object for a stray 0xFF
            return SimpleValue(-1), pos
        raise CBORDecodeError("undefined reserved major type 7 subtype")
    arg, pos = _arg(b, pos, ai)
    if major == 0:
        if arg is None:
            raise CBORDecodeError("unknown unsigned integer subtype 0x1f")
        return arg, pos
    if major == 1:
        if arg is None:
            raise CBORDecodeError("unknown unsigned integer subtype 0x1f")
        return -1 - arg, pos
    if major == 2 or major == 3:
        if arg is None:
            chunks = b""
            while True:
                if pos >= len(b):
                    raise CBORDecodeEOF("premature end of stream")
                if b[pos] == 0xFF:
                    pos += 1
                    break
                cib = b[pos]
                if cib // 32 != major or cib % 32 == 31:
                    raise CBORDecodeError("non-matching chunk in indefinite string")
                clen, p2 = _arg(b, pos + 1, cib % 32)
                if p2 + clen > len(b):
                    raise CBORDecodeEOF("premature end of stream")
                chunks = chunks + b[p2 : p2 + clen]
                pos = p2 + clen
            data = chunks
        else:
            if pos + arg > len(b):
                raise CBORDecodeEOF("premature end of stream")
            data = b[pos : pos + arg]
            pos = pos + arg
        if major == 2:
            return data, pos
        try:
            return data.decode("utf-8"), pos
        except UnicodeDecodeError as e:
            raise CBORDecodeError("error decoding unicode string") from e
    if major == 4:
        items = []
        if arg is None:
            while True:
                if pos >= len(b):
                    raise CBORDecodeEOF("premature end of stream")
                if b[pos] == 0xFF:
                    pos += 1
                    break
                x, pos = _dec(b, pos, immutable, depth + 1)
                items.append(x)
        else:
            if arg > len(b):
                raise CBORDecodeEOF("premature end of stream")
            for _ in range(arg):
                x, pos = _dec(b, pos, immutable, depth + 1)
                items.append(x)
        return (tuple(items) if immutable else items), pos
    if major == 5:
        pairs = []
        needs_pairdict = False

        def put(k, v):
            nonlocal needs_pairdict
            for i, (ek, _) in enumerate(pairs):
                if ek == k:
                    pairs[i] = (ek, v)
                    return
            pairs.append((k, v))
            if _symbolic(k):
                needs_pairdict = True

        if arg is None:
            while True:
                if pos >= len(b):
                    raise CBORDecodeEOF("premature end of stream")
                if b[pos] == 0xFF:
                    pos += 1
                    break
                k, pos = _dec(b, pos, True, depth + 1)
                v, pos = _dec(b, pos, immutable, depth + 1)
                _check_hashable(k)
                put(k, v)
        else:
            if arg > len(b):
                raise CBORDecodeEOF("premature end of stream")
            for _ in range(arg):
                k, pos = _dec(b, pos, True, depth + 1)
                v, pos = _dec(b, pos, immutable, depth + 1)
                _check_hashable(k)
                put(k, v)
        if immutable:
            return frozendict(pairs), pos
        if needs_pairdict:
            return PairDict(pairs), pos
        d = {}
        for k, v in pairs:
            d[k] = v
        return d, pos
    # major == 6
    if arg is None:
        raise CBORDecodeError("unknown unsigned integer subtype 0x1f")
    if not _symbolic(arg) and arg in (28, 256):
        # shareable / stringref-namespace: cbor2 returns the enclosed item itself, decoded in the current context
        return _dec(b, pos, immutable, depth + 1)
    inner, pos = _dec(b, pos, True, depth + 1)
    if not _symbolic(arg) and arg in SEMANTIC_TAGS:
        return _semantic(arg, inner), pos
    return CBORTag(arg, inner), pos


def _check_hashable(k):
    # cbor2 raises (CBORDecodeError / TypeError, all caught by the repo as Exception) for unhashable keys;
    # with immutable decoding of keys this only concerns floats NaN etc. - nothing to do.
    return


def _semantic(tag, inner):
    """cbor2 validates the content of semantic tags; a mismatch is a CBORDecodeError (an Exception)."""
    if tag in (2, 3):
        if not isinstance(inner, bytes):
            raise CBORDecodeError("invalid bignum value")
        n = 0
        for x in inner:
            n = n * 256 + x
        return n if tag == 2 else -1 - n
    if tag == 55799:
        return inner
    if tag == 0 and not isinstance(inner, str):
        raise CBORDecodeError("invalid datetime string")
    if tag == 1 and not isinstance(inner, (int, float)):
        raise CBORDecodeError("invalid timestamp")
    return Semantic(tag, inner)


def plain_loads(b):
    """Decode without the provenance memo (used by oracles)."""
    STATS["plain_loads"] += 1
    v, pos = _dec(b, 0, False, 0)
    return v


def plain_loads_prefix(b):
    v, pos = _dec(b, 0, False, 0)
    return v, pos


def loads(b, **kw):
    STATS["loads"] += 1
    if not isinstance(b, (bytes, bytearray)):
        raise TypeError("a bytes-like object is required")
    hit = _MEMO.get(id(b))
    if hit is not None and hit[0] is b:
        STATS["memo_hits"] += 1
        return norm(hit[1])
    v, pos = _dec(b, 0, False, 0)
    return v


def load(fp, **kw):
    return loads(fp.read())


def install():
    """Rebind the names of the real cbor2 module to this model (call before importing repository modules)."""
    import cbor2

    real = {k: getattr(cbor2, k) for k in ("dumps", "loads", "dump", "load", "CBORTag", "CBORDecodeError")}
    cbor2.dumps = dumps
    cbor2.loads = loads
    cbor2.dump = dump
    cbor2.load = load
    cbor2.CBORTag = CBORTag
    cbor2.CBORDecodeError = CBORDecodeError
    cbor2.CBORDecodeEOF = CBORDecodeEOF
    cbor2.CBORError = CBORError
    cbor2.CBOREncodeError = CBOREncodeError
    cbor2.frozendict = frozendict
    return real
