"""Replay a counterexample on the UNPATCHED code:  python -m vlib.replay <props.module> <replay.json>

The property module's `replay(obligation, params, cex)` must use the real libraries (real cbor2, hashlib,
cryptography, intelhex, files in a temp dir outside /repo and /verif) and a concrete oracle.  It returns
dict(reproduced=bool, detail=str, finding=<id or None>).  Prints `REPLAY <json>`.
"""
from __future__ import annotations

import importlib
import json
import sys
import traceback


def decode(x):
    if isinstance(x, dict):
        if "__bytes__" in x and len(x) == 1:
            return bytes.fromhex(x["__bytes__"])
        if "__pairs__" in x and len(x) == 1:
            return {_h(decode(k)): decode(v) for k, v in x["__pairs__"]}
        return {k: decode(v) for k, v in x.items()}
    if isinstance(x, list):
        return [decode(i) for i in x]
    return x


def _h(k):
    return tuple(k) if isinstance(k, list) else k


def main():
    modname, path = sys.argv[1:3]
    with open(path) as fh:
        rec = json.load(fh)
    try:
        from vlib import repoenv

        repoenv.prepare_concrete()
        mod = importlib.import_module(modname)
        r = mod.replay(rec["obligation"], rec.get("params") or {}, decode(rec.get("cex") or {}))
    except BaseException as e:  # noqa
        r = {"reproduced": None, "detail": "replay exception: " + "".join(traceback.format_exception(type(e), e, e.__traceback__))[-2000:]}
    sys.stdout.write("\nREPLAY " + json.dumps(r, default=repr) + "\n")


if __name__ == "__main__":
    main()
