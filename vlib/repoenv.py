"""Locate the repository under test and prepare it for symbolic execution (no source edits)."""
from __future__ import annotations

import hashlib
import os
import sys

REPO = os.environ.get("VERIF_REPO", "/repo")


def add_repo_to_path():
    # the repository must win over the editable install of /repo when VERIF_REPO points elsewhere
    if sys.path[0] != REPO:
        sys.path.insert(0, REPO)
    for m in list(sys.modules):
        if m.split(".")[0] in ("suit_generator", "ncs", "build_configuration"):
            f = getattr(sys.modules[m], "__file__", None) or ""
            if not f.startswith(REPO):
                del sys.modules[m]
    # log_call wraps every from_obj/to_obj with inspect.stack() and repr() of the arguments (prohibitive under the tracer and
    # a realization point).  It only logs; neutralise it before any other repository module is imported.
    if "suit_generator.logger" not in sys.modules:
        try:
            import suit_generator.logger as L

            L.log_call = lambda f: f
        except Exception:
            pass


def source_sha1(relpath: str) -> str:
    with open(os.path.join(REPO, relpath), "rb") as fh:
        return hashlib.sha1(fh.read()).hexdigest()


def path(relpath: str) -> str:
    return os.path.join(REPO, relpath)


_prepared = False


def prepare_symbolic(model_cbor: bool = True):
    """Install the cbor2 model, neutralise log_call (inspect.stack() per call is prohibitive under the tracer).

    Must run before any other repository module is imported in this process."""
    global _prepared
    if _prepared:
        return
    _prepared = True
    add_repo_to_path()
    if model_cbor:
        from vlib import cbormodel

        cbormodel.install()
    import suit_generator.logger as L

    L.log_call = lambda f: f
    import logging

    logging.disable(logging.CRITICAL)


def prepare_concrete():
    """Plain import of the repository (real cbor2, real everything): replays and stub validation."""
    add_repo_to_path()
    import logging

    logging.disable(logging.CRITICAL)
