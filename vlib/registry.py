"""Registry tables of the description vocabulary, written from the specifications (DESIGN.md Appendix A), NOT derived
from suit_generator/suit/types/keys.py.  name -> registered integer per key space."""

ENVELOPE = {
    "suit-delegation": 1,
    "suit-authentication-wrapper": 2,
    "suit-manifest": 3,
    "suit-dependency-resolution": 15,
    "suit-payload-fetch": 16,
    "suit-install-legacy": 17,
    "suit-candidate-verification": 18,
    "suit-install": 20,
    "suit-text": 23,
}
ENVELOPE_FLATTENED = ["suit-integrated-payloads", "suit-integrated-dependencies"]

MANIFEST = {
    "suit-manifest-version": 1,
    "suit-manifest-sequence-number": 2,
    "suit-common": 3,
    "suit-reference-uri": 4,
    "suit-manifest-component-id": 5,
    "suit-current-version": 6,
    "suit-validate": 7,
    "suit-load": 8,
    "suit-invoke": 9,
    "suit-dependency-resolution": 15,
    "suit-payload-fetch": 16,
    "suit-install-legacy": 17,
    "suit-candidate-verification": 18,
    "suit-install": 20,
    "suit-text": 23,
    "suit_uninstall": 24,
}
SEVERABLE_SEQUENCES = ["suit-dependency-resolution", "suit-payload-fetch", "suit-install-legacy", "suit-candidate-verification", "suit-install"]
PLAIN_SEQUENCES = ["suit-validate", "suit-load", "suit-invoke", "suit_uninstall"]

COMMON = {"suit-dependencies": 1, "suit-components": 2, "suit-shared-sequence": 4}
DEPENDENCY_METADATA = {"suit-dependency-prefix": 1}

CONDITIONS = {
    "suit-condition-vendor-identifier": 1,
    "suit-condition-class-identifier": 2,
    "suit-condition-image-match": 3,
    "suit-condition-component-slot": 5,
    "suit-condition-check-content": 6,
    "suit-condition-dependency-integrity": 7,
    "suit-condition-is-dependency": 8,
    "suit-condition-abort": 14,
    "suit-condition-device-identifier": 24,
    "suit-condition-version": 28,
}
DIRECTIVES = {
    "suit-directive-process-dependency": 11,
    "suit-directive-set-component-index": 12,
    "suit-directive-try-each": 15,
    "suit-directive-write": 18,
    "suit-directive-set-parameters": 19,
    "suit-directive-override-parameters": 20,
    "suit-directive-fetch": 21,
    "suit-directive-copy": 22,
    "suit-directive-invoke": 23,
    "suit-directive-swap": 31,
    "suit-directive-run-sequence": 32,
    "suit-directive-unlink": 33,
}
POLICY_DIRECTIVES = [
    "suit-directive-process-dependency",
    "suit-directive-write",
    "suit-directive-fetch",
    "suit-directive-copy",
    "suit-directive-invoke",
    "suit-directive-swap",
    "suit-directive-unlink",
]
PARAMETERS = {
    "suit-parameter-vendor-identifier": 1,
    "suit-parameter-class-identifier": 2,
    "suit-parameter-image-digest": 3,
    "suit-parameter-component-slot": 5,
    "suit-parameter-strict-order": 12,
    "suit-parameter-soft-failure": 13,
    "suit-parameter-image-size": 14,
    "suit-parameter-content": 18,
    "suit-parameter-encryption-info": 19,
    "suit-parameter-uri": 21,
    "suit-parameter-source-component": 22,
    "suit-parameter-invoke-args": 23,
    "suit-parameter-device-identifier": 24,
    "suit-parameter-version": 28,
}
VERSION_COMPARISON = {
    "suit-condition-version-comparison-greater": 1,
    "suit-condition-version-comparison-greater-equal": 2,
    "suit-condition-version-comparison-equal": 3,
    "suit-condition-version-comparison-lesser-equal": 4,
    "suit-condition-version-comparison-lesser": 5,
}
INVOKE_ARGS = {"suit-synchronous-invoke": 1, "suit-timeout": 2}
POLICY_BITS = {"suit-send-record-success": 1, "suit-send-record-failure": 2, "suit-send-sysinfo-success": 4, "suit-send-sysinfo-failure": 8}
TEXT_KEYS = {"suit-text-manifest-description": 1, "suit-text-update-description": 2, "suit-text-manifest-json-source": 3, "suit-text-manifest-yaml-source": 4}
TEXT_COMPONENT_KEYS = {
    "suit-text-vendor-name": 1,
    "suit-text-model-name": 2,
    "suit-text-vendor-domain": 3,
    "suit-text-model-info": 4,
    "suit-text-component-description": 5,
    "suit-text-component-version": 6,
}
HEADER_KEYS = {"suit-cose-algorithm-id": 1, "suit-cose-key-id": 4, "suit-cose-iv": 5}
HASH_ALGS = {"cose-alg-sha-256": -16, "cose-alg-shake128": -18, "cose-alg-sha-384": -43, "cose-alg-sha-512": -44, "cose-alg-shake256": -45}
HASH_SIZES = {"cose-alg-sha-256": 32, "cose-alg-shake128": 16, "cose-alg-sha-384": 48, "cose-alg-sha-512": 64, "cose-alg-shake256": 32}
HASHLIB_NAMES = {"cose-alg-sha-256": "sha256", "cose-alg-shake128": "shake_128", "cose-alg-sha-384": "sha384", "cose-alg-sha-512": "sha512", "cose-alg-shake256": "shake_256"}
COSE_ALGS = {
    "cose-alg-es-256": -7,
    "cose-alg-es-384": -35,
    "cose-alg-es-521": -36,
    "cose-alg-eddsa": -8,
    "cose-alg-vs-hash-eddsa": -65537,
    "cose-alg-aes-gcm-128": 1,
    "cose-alg-aes-gcm-192": 2,
    "cose-alg-aes-gcm-256": 3,
    "cose-alg-a128kw": -3,
    "cose-alg-a192kw": -4,
    "cose-alg-a256kw": -5,
    "cose-alg-direct": -6,
}
CWT_CLAIMS = {"Issuer": 1, "Subject": 2, "Audience": 3, "Expiration Time": 4, "Not Before": 5, "Issued At": 6, "CW ID": 7}
TAGS = {"SUIT_Envelope_Tagged": 107, "CoseSign1Tagged": 18, "CoseEncryptTagged": 96}

KEY_SPACES = {
    "envelope": ENVELOPE,
    "manifest": MANIFEST,
    "common": COMMON,
    "dependency-metadata": DEPENDENCY_METADATA,
    "conditions": CONDITIONS,
    "directives": DIRECTIVES,
    "parameters": PARAMETERS,
    "version-comparison": VERSION_COMPARISON,
    "invoke-args": INVOKE_ARGS,
    "policy-bits": POLICY_BITS,
    "text-keys": TEXT_KEYS,
    "text-component-keys": TEXT_COMPONENT_KEYS,
    "header-keys": HEADER_KEYS,
    "hash-algorithms": HASH_ALGS,
    "cose-algorithms": COSE_ALGS,
    "cwt-claims": CWT_CLAIMS,
}


def inverse(space):
    return {v: k for k, v in space.items()}
