"""Value domains of kernsym (E2): symbolic ints/bools over z3, byte ropes, token strings, abstract strings."""
from __future__ import annotations

import z3


class Unsupported(Exception):
    """The interpreter met a construct outside its subset: the obligation is inconclusive, never a pass."""


class SInt:
    __slots__ = ("t",)

    def __init__(self, t):
        self.t = t

    def __repr__(self):
        return f"SInt({self.t})"


class SBool:
    __slots__ = ("t",)

    def __init__(self, t):
        self.t = t

    def __repr__(self):
        return f"SBool({self.t})"


class SRat:
    """Exact quotient num/den of integers (result of `/`); only math.ceil / math.floor / int() consume it."""

    __slots__ = ("num", "den")

    def __init__(self, num, den):
        self.num = num
        self.den = den


def term(x):
    """z3 term of an int-like value."""
    if isinstance(x, SInt):
        return x.t
    if isinstance(x, z3.ArithRef):
        return x
    if isinstance(x, bool):
        return z3.IntVal(1 if x else 0)
    if isinstance(x, int):
        return z3.IntVal(x)
    raise Unsupported(f"not an integer value: {type(x).__name__}")


def is_sym(x) -> bool:
    return isinstance(x, (SInt, SBool, SRat, Rope, TokStr, AbsStr, EnumVal, AbsList))


def deep_sym(x, depth=0) -> bool:
    if is_sym(x):
        return True
    if depth > 6:
        return False
    if isinstance(x, (list, tuple)):
        return any(deep_sym(i, depth + 1) for i in x)
    if isinstance(x, dict):
        return any(deep_sym(k, depth + 1) or deep_sym(v, depth + 1) for k, v in x.items())
    if isinstance(x, Obj):
        return True
    return False


# ------------------------------------------------------------------------------------------------ ropes


class Seg:
    """kind: 'const' (data=bytes) | 'int' (term,width,order) | 'opaque' (ident,length) | 'fill' (byte,length)
    | 'area' (start,end,segs,pad)  -- image of an address interval (IntelHex.tobinstr)."""

    __slots__ = ("kind", "a", "b", "c", "d")

    def __init__(self, kind, a=None, b=None, c=None, d=None):
        self.kind, self.a, self.b, self.c, self.d = kind, a, b, c, d

    def length(self):
        if self.kind == "const":
            return len(self.a)
        if self.kind == "int":
            return self.b
        if self.kind == "opaque":
            return self.b
        if self.kind == "fill":
            return self.b
        if self.kind == "area":
            return self.b - self.a + 1
        raise AssertionError(self.kind)

    def __repr__(self):
        if self.kind == "const":
            return f"const({self.a.hex()})"
        if self.kind == "int":
            return f"int_{self.c}({self.a},{self.b})"
        if self.kind == "opaque":
            return f"opaque({self.a},len={self.b})"
        if self.kind == "fill":
            return f"fill({self.a:#x},len={self.b})"
        return f"area({self.a}..{self.b},{self.c},pad={self.d})"


class Rope:
    """Symbolic byte string: concatenation of segments."""

    __slots__ = ("segs",)

    def __init__(self, segs=()):
        out = []
        for s in segs:
            if s.kind == "const":
                if len(s.a) == 0:
                    continue
                if out and out[-1].kind == "const":
                    out[-1] = Seg("const", out[-1].a + s.a)
                    continue
            out.append(s)
        self.segs = out

    @staticmethod
    def const(b: bytes):
        return Rope([Seg("const", bytes(b))])

    @staticmethod
    def of(x):
        if isinstance(x, Rope):
            return x
        if isinstance(x, (bytes, bytearray)):
            return Rope.const(bytes(x))
        raise Unsupported(f"not bytes-like: {type(x).__name__}")

    def length(self):
        n = 0
        for s in self.segs:
            n = n + s.length()
        return n

    def concat(self, other):
        return Rope(self.segs + Rope.of(other).segs)

    def concrete(self):
        """bytes if every segment is constant, else None."""
        if all(s.kind == "const" for s in self.segs):
            return b"".join(s.a for s in self.segs)
        return None

    def __repr__(self):
        return "Rope[" + " ‖ ".join(map(repr, self.segs)) + "]"


# ------------------------------------------------------------------------------------------------ strings


class AbsStr:
    """Abstract text: identity `ident` (z3 Int), UTF-8 length `ulen`, character length `clen`.
    The code under analysis never inspects its characters."""

    __slots__ = ("ident", "ulen", "clen", "name")

    def __init__(self, name, ident, ulen, clen):
        self.name, self.ident, self.ulen, self.clen = name, ident, ulen, clen

    def __repr__(self):
        return f"AbsStr({self.name})"


class Tok:
    """'lit' (text) | 'digits' (term: decimal rendering of a non-negative int, non-empty, no sign)."""

    __slots__ = ("kind", "v")

    def __init__(self, kind, v):
        self.kind, self.v = kind, v

    def __repr__(self):
        return f"{self.kind}({self.v})"


class TokStr:
    __slots__ = ("toks",)

    def __init__(self, toks=()):
        out = []
        for t in toks:
            if t.kind == "lit":
                if t.v == "":
                    continue
                if out and out[-1].kind == "lit":
                    out[-1] = Tok("lit", out[-1].v + t.v)
                    continue
            out.append(t)
        self.toks = out

    @staticmethod
    def of(x):
        if isinstance(x, TokStr):
            return x
        if isinstance(x, str):
            return TokStr([Tok("lit", x)])
        raise Unsupported(f"not a string: {type(x).__name__}")

    @staticmethod
    def digits(t):
        return TokStr([Tok("digits", t)])

    def concrete(self):
        if all(t.kind == "lit" for t in self.toks):
            return "".join(t.v for t in self.toks)
        return None

    def concat(self, other):
        return TokStr(self.toks + TokStr.of(other).toks)

    def instantiate(self, values):
        """Concrete string with digit tokens replaced by the given ints (list, in order)."""
        out = []
        i = 0
        for t in self.toks:
            if t.kind == "lit":
                out.append(t.v)
            else:
                out.append(str(values[i]))
                i += 1
        return "".join(out)

    def ndigits(self):
        return sum(1 for t in self.toks if t.kind == "digits")

    def __repr__(self):
        return "TokStr" + repr(self.toks)


class EnumVal:
    """A value drawn from a finite concrete domain by a symbolic selector (z3 Int in 0..len-1)."""

    __slots__ = ("sel", "domain")

    def __init__(self, sel, domain):
        self.sel, self.domain = sel, list(domain)

    def eq_const(self, c):
        alts = [self.sel == i for i, d in enumerate(self.domain) if type(d) is type(c) and d == c]
        return z3.Or(*alts) if alts else z3.BoolVal(False)

    def is_const(self, c):
        alts = [self.sel == i for i, d in enumerate(self.domain) if d is c]
        return z3.Or(*alts) if alts else z3.BoolVal(False)


class AbsList:
    """Abstract collection (arbitrary number of earlier elements) with a membership predicate over AbsStr
    identities: member(x) = Or(x.ident == e.ident for appended e) or base(x.ident), base uninterpreted."""

    __slots__ = ("base", "added")

    def __init__(self, base, added=()):
        self.base = base  # z3 function Int -> Bool, or None for the empty list
        self.added = list(added)

    def member(self, x):
        alts = []
        if self.base is not None:
            alts.append(self.base(x.ident))
        for e in self.added:
            alts.append(e.ident == x.ident)
        return z3.Or(*alts) if alts else z3.BoolVal(False)


class Obj:
    """Instance of a repository class whose methods are interpreted."""

    def __init__(self, cls):
        self.__dict__["_cls"] = cls
        self.__dict__["_attrs"] = {}

    def __repr__(self):
        return f"Obj<{self._cls.__name__}>{self._attrs}"


def concretize(rope):
    """bytes of a rope whose terms are all numerals (concrete-mode results); None if not possible."""

    def val(t):
        return t if isinstance(t, int) else z3.simplify(t).as_long()

    out = bytearray()
    try:
        for sg in Rope.of(rope).segs:
            if sg.kind == "const":
                out += sg.a
            elif sg.kind == "fill":
                out += bytes([sg.a]) * val(sg.b)
            elif sg.kind == "int":
                out += val(sg.a).to_bytes(val(sg.b), sg.c)
            else:
                return None
    except Exception:
        return None
    return bytes(out)
