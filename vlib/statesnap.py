"""Structural snapshot of all process-level mutable state owned by the repository's modules.

Used by C18 (frame condition): state(before op) == state(after op) on every explored path.  Covered:
  * module globals of every loaded module whose file lives under the repository root,
  * the class dictionaries of every class defined in those modules (class attributes such as `_metadata`,
    `_hash_func`, `_CLASS_ROLE_ASSIGNMENTS`, `_LAYOUT`, default tables ...), recursively through containers and
    through plain objects (e.g. `Metadata` records) hanging off them,
  * default arguments, keyword defaults and closure cells of every function/method defined there,
  * dict order (the encoders are order preserving), identities of classes and functions.
Not covered (stated in evidence): state of third-party libraries, interpreter-level state (hash seed, cwd,
environment), objects reachable only through frames or instances the caller keeps.

Whitelisted, because it is the one piece of state that legitimately changes (see DESIGN.md, C18): the five
`functools.update_wrapper` attributes of the `cbstr()` wrapper classes, set on first instantiation.
"""
from __future__ import annotations

import enum
import logging
import os
import sys
import types

CBSTR_ATTRS = ("__name__", "__qualname__", "__module__", "__doc__", "__wrapped__", "__type_params__")  # functools.WRAPPER_ASSIGNMENTS (3.12) + __wrapped__
CBSTR_PRISTINE = {"__name__": "Cbstr", "__qualname__": "cbstr.<locals>.Cbstr", "__module__": "suit_generator.suit.types.common", "__doc__": "Decorator implementation."}
PER_CALL_MODULES = ("SuitSignScript_module", "SuitKMS_module", "SuitEncryptScript_module", "SuitEncryptorScript_module")
_ATOM = (type(None), bool, int, float, complex, str, bytes)
_KEEP = {}  # id -> object for every visited object: ids are never reused between two snapshots


def repo_modules(root):
    root = os.path.realpath(root) + os.sep
    out = []
    for name, m in list(sys.modules.items()):
        f = getattr(m, "__file__", None)
        if name.startswith(PER_CALL_MODULES):
            continue  # script modules the loaders execute afresh for every command invocation
        if f and name != "__main__" and os.path.realpath(f).startswith(root) and "/tests/" not in f:
            out.append((name, m))
    return sorted(out, key=lambda t: t[0])


def preimport(root):
    """Import every module of the packages the tool is made of, so that no import-time fix-up happens between two
    snapshots (import order is not what C18 is about: the CLI imports all of them at start-up)."""
    import importlib
    import pkgutil

    import suit_generator

    for pkg in (suit_generator,):
        for mi in pkgutil.walk_packages(pkg.__path__, pkg.__name__ + "."):
            if ".tests" in mi.name or mi.name.endswith("__main__"):
                continue
            try:
                importlib.import_module(mi.name)
            except Exception:  # optional dependencies of single commands
                pass
    for n in ("ncs.build", "ncs.sign_script", "ncs.encrypt_script", "ncs.basic_kms"):
        try:
            importlib.import_module(n)
        except Exception:
            pass


def is_cbstr_wrapper(cls):
    init = cls.__dict__.get("__init__")
    return isinstance(init, types.FunctionType) and init.__qualname__ == "cbstr.<locals>.Cbstr.__init__"


class Snap:
    def __init__(self, root):
        self.root = root
        self.mods = dict(repo_modules(root))
        self.modnames = set(self.mods)
        self.entries = {}
        self.classes = {}
        self.funcs = {}
        self.busy = set()

    def own(self, obj):
        return getattr(obj, "__module__", None) in self.modnames

    # -- freezing
    def fz(self, v, depth=0):
        t = type(v)
        if t in _ATOM:
            return (t.__name__, v)
        _KEEP[id(v)] = v
        if depth > 12:
            return ("deep", t.__name__, id(v))
        if isinstance(v, enum.Enum):
            return ("enum", repr(v))
        if t is dict:
            return ("dict", tuple((self.fz(k, depth + 1), self.fz(x, depth + 1)) for k, x in v.items()))
        if t in (list, tuple):
            return (t.__name__, tuple(self.fz(x, depth + 1) for x in v))
        if t in (set, frozenset):
            return (t.__name__, tuple(sorted(repr(self.fz(x, depth + 1)) for x in v)))
        if isinstance(v, type):
            if self.own(v):
                self.visit_class(v)
            return ("class", id(v))
        if isinstance(v, (types.FunctionType, types.BuiltinFunctionType, types.MethodType, staticmethod, classmethod, property)):
            f = getattr(v, "__func__", v)
            if isinstance(f, types.FunctionType) and self.own(f):
                self.visit_func(f)
            return ("callable", id(v))
        if isinstance(v, types.ModuleType):
            return ("module", v.__name__)
        if isinstance(v, (logging.Logger, logging.Handler)):
            return ("logger",)
        mod = getattr(t, "__module__", "") or ""
        if mod.startswith("vlib") or mod.startswith("props") or mod.startswith("crosshair"):
            # verification stubs (recorders, proxies) carry per-path logs by design; a *symbolic* value parked in
            # repository state is a different type from what was there before and shows up as a change
            return ("verif-object", t.__name__, id(v) if not mod.startswith("crosshair") else 0)
        if id(v) in self.busy:
            return ("cycle", id(v))
        d = getattr(v, "__dict__", None)
        if isinstance(d, dict) and self.own(t):
            self.busy.add(id(v))
            try:
                return ("object", t.__qualname__, id(v), tuple((k, self.fz(x, depth + 1)) for k, x in d.items()))
            finally:
                self.busy.discard(id(v))
        if t.__name__ in ("mappingproxy",):
            return ("mappingproxy", tuple((k, self.fz(x, depth + 1)) for k, x in v.items()))
        return ("opaque", t.__name__, id(v))

    def visit_class(self, cls):
        if id(cls) in self.classes:
            return
        self.classes[id(cls)] = None
        _KEEP[id(cls)] = cls
        wrapper = is_cbstr_wrapper(cls)
        out = []
        for k, x in list(cls.__dict__.items()):
            if k in ("__dict__", "__weakref__", "__abstractmethods__", "_abc_impl", "__annotations__", "__firstlineno__", "__static_attributes__"):
                continue
            if wrapper and k in CBSTR_ATTRS:
                continue
            out.append((k, self.fz(x, 1)))
        out.append(("__bases__", tuple(id(b) for b in cls.__bases__)))
        if not wrapper:
            out.append(("__name__", cls.__name__))
        self.classes[id(cls)] = tuple(out)
        label = "cbstr-wrapper" if wrapper else cls.__module__ + "." + cls.__qualname__
        self.entries["class:" + label + "@%x" % id(cls)] = self.classes[id(cls)]

    def visit_func(self, f):
        if id(f) in self.funcs:
            return
        self.funcs[id(f)] = None
        _KEEP[id(f)] = f
        cells = ()
        if f.__closure__:
            vals = []
            for c in f.__closure__:
                try:
                    vals.append(self.fz(c.cell_contents, 2))
                except ValueError:
                    vals.append(("empty-cell",))
            cells = tuple(vals)
        r = (self.fz(f.__defaults__, 2), self.fz(f.__kwdefaults__, 2), cells, id(f.__code__), self.fz(dict(getattr(f, "__dict__", {})), 2))
        self.funcs[id(f)] = r
        self.entries["func:" + f.__module__ + "." + f.__qualname__ + "@%x" % id(f)] = r

    def run(self):
        for name, m in self.mods.items():
            for k, v in list(vars(m).items()):
                if k.startswith("__") and k.endswith("__"):
                    continue
                self.entries["global:" + name + "." + k] = self.fz(v, 0)
        return self.entries


def take(root):
    return Snap(root).run()


def diff(a, b, limit=8):
    out = []
    for k in a:
        if k not in b:
            out.append(k + " (disappeared)")
        elif a[k] != b[k]:
            out.append(k + _where(a[k], b[k]))
        if len(out) >= limit:
            break
    for k in b:
        if k not in a and len(out) < limit:
            out.append(k + " (new)")
    return out


def _where(x, y):
    """Short description of the first difference (for the violation message)."""
    try:
        if isinstance(x, tuple) and isinstance(y, tuple) and len(x) == len(y):
            for i, (p, q) in enumerate(zip(x, y)):
                if p != q:
                    if isinstance(p, tuple) and len(p) == 2 and isinstance(p[0], str) and isinstance(q, tuple) and len(q) == 2 and p[0] == q[0]:
                        return "." + p[0] + _where(p[1], q[1])
                    return _where(p, q)
        return f": {str(x)[:120]} -> {str(y)[:120]}"
    except Exception:
        return ""


# ------------------------------------------------------------------------------------------------ cbstr wrappers


def cbstr_wrappers(root):
    s = Snap(root)
    s.run()
    return [o for o in list(_KEEP.values()) if isinstance(o, type) and is_cbstr_wrapper(o)]


def make_pristine(wrappers):
    """Put the cbstr() wrapper classes back into their import-time state (before any instantiation)."""
    seen = set()
    for w in wrappers:
        if id(w) in seen:
            continue
        seen.add(id(w))
        for k, v in CBSTR_PRISTINE.items():
            setattr(w, k, v)
        if "__wrapped__" in w.__dict__:
            delattr(w, "__wrapped__")
        if "__type_params__" in w.__dict__:
            w.__type_params__ = ()
