"""Process-wide virtual file-system layer on top of stubs.FS.

The per-module seams (`module.open = fs.open`) only see the calls the *current* code makes.  A realistic change may reach the
file system through another door (`pathlib.Path.is_file/stat/lstat/read_bytes`, `os.path.*`, `os.open` + `os.fdopen`,
`shutil.copyfile`, ...).  `install(fs)` therefore replaces the library-level entry points themselves:

    builtins.open / io.open, os.stat / os.lstat (hence os.path.exists/isfile/isdir/getsize/islink and pathlib's stat family),
    os.open / os.fdopen / os.write / os.read / os.close for virtual descriptors, os.makedirs / os.mkdir, os.remove / os.unlink,
    os.rename / os.replace, os.listdir, shutil.copyfile / copy / copy2

Routing rule while a file system is installed: a name that the in-memory file system knows (compared with ==, so symbolic
names are decided by the solver) is virtual; every write/creation is virtual (nothing is written to disk by a harness);
any other name falls through to the real function (imports, the repository's own script files).  Symbolic links are
modelled (stat follows, lstat does not) because "size of the link" vs "size of the file" is a classic confusion.

With `cwd_free=True` a *relative* name that the file system does not know is answered by the solver: it may or may not
exist in the (arbitrary) working directory, with arbitrary content.  This turns the working directory into a symbolic variable
for the C18 obligations.
"""
from __future__ import annotations

import builtins
import io
import os
import shutil
import stat as _stat

_REAL = {}
_FS = None
_OPTS = {"cwd_free": None}


class VStat:
    """os.stat_result stand-in (only the fields code normally reads)."""

    def __init__(self, mode, size):
        self.st_mode = mode
        self.st_size = size
        self.st_mtime = 0
        self.st_atime = 0
        self.st_ctime = 0
        self.st_uid = 0
        self.st_gid = 0
        self.st_nlink = 1
        self.st_ino = 0
        self.st_dev = 0

    def __getitem__(self, i):
        return (self.st_mode, self.st_ino, self.st_dev, self.st_nlink, self.st_uid, self.st_gid, self.st_size, self.st_atime, self.st_mtime, self.st_ctime)[i]


class VFd:
    """Virtual file descriptor returned by the patched os.open."""

    def __init__(self, fs, name, flags):
        self.fs, self.name, self.flags = fs, name, flags
        self.file = None


def _s(name):
    """str of a path-like without touching symbolic strings."""
    if isinstance(name, (str, bytes)):
        return name
    if isinstance(name, VFd):
        return name
    try:
        return os.fspath(name)
    except TypeError:
        return name


def _is_dir(fs, name):
    name = _s(name)
    if not isinstance(name, str):
        return False
    n = name.rstrip("/") if len(name) > 1 else name
    for d in fs.dirs:
        if d == n:
            return True
    pre = n + "/"
    for k in fs.names:
        if isinstance(k, str) and type(k) is str and k.startswith(pre):
            return True
    return False


def _cwd_lookup(fs, name):
    """cwd_free mode: a relative name unknown to the file system exists or not as the solver likes (arbitrary working directory)."""
    hook = _OPTS.get("cwd_free")
    if hook is None or not isinstance(name, str):
        return False
    try:
        from crosshair.tracers import is_tracing

        if not is_tracing():  # the analyser's own lookups (source files of the harness) are not the program's
            return False
    except ImportError:
        pass
    if type(name) is str and (name.startswith("/") or name == ""):
        return False
    return hook(fs, name)


def _resolve(fs, name, follow=True):
    return fs.resolve(name, follow)


def v_stat(path, *a, dir_fd=None, follow_symlinks=True, **kw):
    fs = _FS
    if fs is None or isinstance(path, int):
        return _REAL["stat"](path, *a, dir_fd=dir_fd, follow_symlinks=follow_symlinks, **kw)
    name = _s(path)
    i = _resolve(fs, name, follow_symlinks)
    if i >= 0:
        if fs.is_link(i):
            return VStat(_stat.S_IFLNK | 0o777, len(fs.contents[i].target))
        return VStat(_stat.S_IFREG | 0o644, len(fs.contents[i]))
    if fs._find(name) >= 0:
        raise FileNotFoundError(2, "No such file or directory (dangling link)", str(name))
    if _is_dir(fs, name):
        return VStat(_stat.S_IFDIR | 0o755, 4096)
    if _cwd_lookup(fs, name):
        i = fs._find(name)
        return VStat(_stat.S_IFREG | 0o644, len(fs.contents[i]))
    return _REAL["stat"](path, *a, dir_fd=dir_fd, follow_symlinks=follow_symlinks, **kw)


def v_lstat(path, *a, dir_fd=None, **kw):
    if _FS is None:
        return _REAL["lstat"](path, *a, dir_fd=dir_fd, **kw)
    return v_stat(path, *a, dir_fd=dir_fd, follow_symlinks=False, **kw)


def v_open(file, mode="r", *a, **kw):
    fs = _FS
    if fs is None or isinstance(file, int):
        return _REAL["open"](file, mode, *a, **kw)
    if isinstance(file, VFd):
        return v_fdopen(file, mode, *a, **kw)
    name = _s(file)
    writing = any(c in mode for c in "wax+")
    if writing:
        if "x" in mode and fs._find(name) >= 0:
            raise FileExistsError(17, "File exists", str(name))
        i = _resolve(fs, name)
        if i >= 0:
            name = fs.names[i]
        if "w" in mode or "x" in mode:
            return fs.open(name, mode.replace("x", "w"), *a, **kw)
        base = fs.contents[i] if i >= 0 else (b"" if "b" in mode else "")
        if "a" in mode:
            return fs.open_over(name, mode, base, append=True)
        if i < 0:
            raise FileNotFoundError(2, "No such file or directory", str(name))
        return fs.open_over(name, mode, base, append=False)
    i = _resolve(fs, name)
    if i >= 0:
        return fs.open(fs.names[i], mode, *a, **kw)
    if fs._find(name) >= 0:
        raise FileNotFoundError(2, "No such file or directory (dangling link)", str(name))
    if _cwd_lookup(fs, name):
        return fs.open(name, mode, *a, **kw)
    if _is_dir(fs, name):
        raise IsADirectoryError(21, "Is a directory", str(name))
    return _REAL["open"](file, mode, *a, **kw)


def v_os_open(path, flags, mode=0o777, *a, **kw):
    fs = _FS
    if fs is None:
        return _REAL["os_open"](path, flags, mode, *a, **kw)
    name = _s(path)
    acc = flags & 3
    if acc == os.O_RDONLY and not (flags & os.O_CREAT):
        if _resolve(fs, name) < 0:
            return _REAL["os_open"](path, flags, mode, *a, **kw)
    i = _resolve(fs, name)
    if i < 0 and not (flags & os.O_CREAT):
        raise FileNotFoundError(2, "No such file or directory", str(name))
    if i >= 0 and (flags & os.O_CREAT) and (flags & os.O_EXCL):
        raise FileExistsError(17, "File exists", str(name))
    return VFd(fs, fs.names[i] if i >= 0 else name, flags)


def v_fdopen(fd, mode="r", *a, **kw):
    if not isinstance(fd, VFd):
        return _REAL["fdopen"](fd, mode, *a, **kw)
    fs = fd.fs
    acc = fd.flags & 3
    if acc == os.O_RDONLY:
        return fs.open(fd.name, mode if "r" in mode else "rb")
    i = fs._find(fd.name)
    if (fd.flags & os.O_TRUNC) or i < 0:
        m = mode if ("w" in mode or "a" in mode) else ("wb" if "b" in mode else "w")
        f = fs.open(fd.name, m.replace("a", "w"))
    else:
        base = fs.contents[i]
        f = fs.open_over(fd.name, mode if "b" in mode or isinstance(base, str) else mode + "b", base, append=bool(fd.flags & os.O_APPEND) or "a" in mode)
    fd.file = f
    return f


def v_os_write(fd, data):
    if not isinstance(fd, VFd):
        return _REAL["os_write"](fd, data)
    if fd.file is None:
        v_fdopen(fd, "wb")
    return fd.file.write(data)


def v_os_close(fd):
    if not isinstance(fd, VFd):
        return _REAL["os_close"](fd)
    if fd.file is not None:
        fd.file.close()
    elif fd.flags & (os.O_CREAT | os.O_TRUNC) and (fd.flags & 3) != os.O_RDONLY:
        v_fdopen(fd, "wb").close()


def v_makedirs(name, mode=0o777, exist_ok=False):
    fs = _FS
    if fs is None:
        return _REAL["makedirs"](name, mode, exist_ok)
    n = _s(name)
    if _is_dir(fs, n):
        if not exist_ok:
            raise FileExistsError(17, "File exists", str(n))
        return
    try:
        if _REAL["isdir_real"](n):
            if not exist_ok:
                raise FileExistsError(17, "File exists", str(n))
            return
    except (TypeError, ValueError):
        pass
    fs.dirs.append(n.rstrip("/") if isinstance(n, str) and len(n) > 1 else n)


def v_mkdir(name, mode=0o777, *a, **kw):
    fs = _FS
    if fs is None:
        return _REAL["mkdir"](name, mode, *a, **kw)
    return v_makedirs(name, mode, exist_ok=False)


def v_remove(name, *a, **kw):
    fs = _FS
    if fs is None:
        return _REAL["remove"](name, *a, **kw)
    i = fs._find(_s(name))
    if i < 0:
        raise FileNotFoundError(2, "No such file or directory", str(name))
    fs.removed.append(fs.names[i])
    del fs.names[i]
    del fs.contents[i]


def v_rename(src, dst, *a, **kw):
    fs = _FS
    if fs is None:
        return _REAL["rename"](src, dst, *a, **kw)
    i = fs._find(_s(src))
    if i < 0:
        raise FileNotFoundError(2, "No such file or directory", str(src))
    content = fs.contents[i]
    del fs.names[i]
    del fs.contents[i]
    fs.add(_s(dst), content)
    fs.writes.append((_s(dst), "rename", content))


def v_copyfile(src, dst, *a, **kw):
    fs = _FS
    if fs is None:
        return _REAL["copyfile"](src, dst, *a, **kw)
    with v_open(src, "rb") as fh:
        data = fh.read()
    d = _s(dst)
    if _is_dir(fs, d):
        d = os.path.join(d, os.path.basename(_s(src)))
    with v_open(d, "wb") as fh:
        fh.write(data)
    return dst


def v_listdir(path="."):
    fs = _FS
    if fs is None:
        return _REAL["listdir"](path)
    p = _s(path)
    if not _is_dir(fs, p):
        return _REAL["listdir"](path)
    pre = (p.rstrip("/") + "/") if p not in (".", "") else ""
    out = []
    for k in fs.names:
        if type(k) is str and k.startswith(pre):
            rest = k[len(pre) :].split("/")[0]
            if rest and rest not in out:
                out.append(rest)
    return out


def install(fs, cwd_free=None):
    """Route the library-level file-system entry points through `fs` (idempotent; the latest file system wins)."""
    global _FS
    if not _REAL:
        _REAL.update(
            open=builtins.open,
            stat=os.stat,
            lstat=os.lstat,
            os_open=os.open,
            fdopen=os.fdopen,
            os_write=os.write,
            os_close=os.close,
            makedirs=os.makedirs,
            mkdir=os.mkdir,
            remove=os.remove,
            rename=os.rename,
            copyfile=shutil.copyfile,
            listdir=os.listdir,
            isdir_real=os.path.isdir,
        )
        real_stat = os.stat

        def isdir_real(p):
            try:
                return _stat.S_ISDIR(real_stat(p).st_mode)
            except OSError:
                return False

        _REAL["isdir_real"] = isdir_real
        builtins.open = v_open
        io.open = v_open
        os.stat = v_stat
        os.lstat = v_lstat
        os.open = v_os_open
        os.fdopen = v_fdopen
        os.write = v_os_write
        os.close = v_os_close
        os.makedirs = v_makedirs
        os.mkdir = v_mkdir
        os.remove = v_remove
        os.unlink = v_remove
        os.rename = v_rename
        os.replace = v_rename
        os.listdir = v_listdir
        shutil.copyfile = v_copyfile
        shutil.copy = v_copyfile
        shutil.copy2 = v_copyfile
    _FS = fs
    _OPTS["cwd_free"] = cwd_free


def uninstall():
    global _FS
    _FS = None
    _OPTS["cwd_free"] = None


class real_io:
    """Context manager: the real file system (for harness-side bookkeeping that must touch the disk)."""

    def __enter__(self):
        global _FS
        self.saved = _FS
        _FS = None

    def __exit__(self, *a):
        global _FS
        _FS = self.saved
        return False
