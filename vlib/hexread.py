"""Independent Intel-HEX reader (record types 00, 01, 02, 04; 03/05 ignored) with checksum verification."""
from __future__ import annotations


def read_hex(text: str) -> dict:
    """Return {address: byte}."""
    mem = {}
    base = 0
    eof = False
    for ln, line in enumerate(text.splitlines(), 1):
        line = line.strip()
        if not line:
            continue
        if eof:
            raise ValueError(f"line {ln}: data after EOF record")
        if line[0] != ":":
            raise ValueError(f"line {ln}: no start code")
        raw = bytes.fromhex(line[1:])
        if sum(raw) & 0xFF:
            raise ValueError(f"line {ln}: checksum")
        n, addr, typ = raw[0], (raw[1] << 8) | raw[2], raw[3]
        data = raw[4:-1]
        if len(data) != n:
            raise ValueError(f"line {ln}: length")
        if typ == 0:
            for i, b in enumerate(data):
                a = base + ((addr + i) & 0xFFFF) if False else base + addr + i
                if a in mem:
                    raise ValueError(f"line {ln}: address {a:#x} written twice")
                mem[a] = b
        elif typ == 1:
            eof = True
        elif typ == 2:
            base = ((data[0] << 8) | data[1]) << 4
        elif typ == 4:
            base = ((data[0] << 8) | data[1]) << 16
        elif typ in (3, 5):
            pass
        else:
            raise ValueError(f"line {ln}: record type {typ}")
    if not eof:
        raise ValueError("no EOF record")
    return mem


def segments(mem: dict) -> list:
    """Sorted list of (start, bytes) maximal runs."""
    out = []
    cur = None
    for a in sorted(mem):
        if cur is not None and a == cur[0] + len(cur[1]):
            cur[1].append(mem[a])
        else:
            cur = [a, bytearray([mem[a]])]
            out.append(cur)
    return [(a, bytes(b)) for a, b in out]
