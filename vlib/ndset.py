"""String-hash seed as a solver variable: sets whose iteration order is chosen by the solver.

The iteration order of a set of strings depends on PYTHONHASHSEED.  Under the harness the names `set` and `frozenset` in the
repository's modules are rebound to these classes: every iteration yields the elements in a solver-chosen order (all
permutations for up to 3 elements; rotations and reversed rotations beyond), so output that depends on set order is falsified by
some order.  `sorted(s)`, membership tests and len() stay deterministic, exactly as in CPython.
"""
from __future__ import annotations

import itertools

_PICK = [None]
_COUNT = [0]


def _orders(items):
    n = len(items)
    if n <= 3:
        return [list(p) for p in itertools.permutations(items)]
    out = []
    for r in range(n):
        rot = items[r:] + items[:r]
        out.append(rot)
        out.append(rot[::-1])
    return out


def _choose(items):
    if len(items) < 2 or _PICK[0] is None:
        return items
    _COUNT[0] += 1
    orders = _orders(items)
    return _PICK[0]("set_order%d" % _COUNT[0], orders)


def _wrap(cls, r):
    return cls(r) if isinstance(r, (set, frozenset)) and not isinstance(r, (NDSet, NDFrozenSet)) else r


class NDSet(set):
    def __iter__(self):
        return iter(_choose(sorted(set.__iter__(self), key=repr)))

    def __sub__(self, o):
        return NDSet(set.__sub__(self, o))

    def __and__(self, o):
        return NDSet(set.__and__(self, o))

    def __or__(self, o):
        return NDSet(set.__or__(self, o))

    def __xor__(self, o):
        return NDSet(set.__xor__(self, o))

    def __rsub__(self, o):
        return NDSet(set.__rsub__(self, o))

    def difference(self, *o):
        return NDSet(set.difference(self, *o))

    def intersection(self, *o):
        return NDSet(set.intersection(self, *o))

    def union(self, *o):
        return NDSet(set.union(self, *o))

    def symmetric_difference(self, o):
        return NDSet(set.symmetric_difference(self, o))

    def copy(self):
        return NDSet(set.copy(self))


class NDFrozenSet(frozenset):
    def __iter__(self):
        return iter(_choose(sorted(frozenset.__iter__(self), key=repr)))

    def __sub__(self, o):
        return NDFrozenSet(frozenset.__sub__(self, o))

    def __and__(self, o):
        return NDFrozenSet(frozenset.__and__(self, o))

    def __or__(self, o):
        return NDFrozenSet(frozenset.__or__(self, o))

    def __xor__(self, o):
        return NDFrozenSet(frozenset.__xor__(self, o))


def install(modules, pick):
    """Rebind set/frozenset in the given modules (module globals shadow the builtins); `pick(name, options)` is the solver's choice."""
    _PICK[0] = pick
    for m in modules:
        m.set = NDSet
        m.frozenset = NDFrozenSet


def reset():
    _COUNT[0] = 0


def scan_literals(root, packages=("suit_generator", "ncs", "build_configuration")):
    """Set displays / comprehensions cannot be rebound by name: list them so that the evidence says what the model does not cover."""
    import ast
    import os

    found = []
    for pkg in packages:
        for dp, dn, fn in os.walk(os.path.join(root, pkg)):
            for f in fn:
                if f.endswith(".py"):
                    p = os.path.join(dp, f)
                    try:
                        tree = ast.parse(open(p).read())
                    except SyntaxError:
                        continue
                    for node in ast.walk(tree):
                        if isinstance(node, (ast.Set, ast.SetComp)):
                            found.append(f"{os.path.relpath(p, root)}:{node.lineno}")
    return found
