"""Obligation descriptor shared by property modules, the worker and the orchestrator."""
from __future__ import annotations

from dataclasses import dataclass, field


@dataclass
class Ob:
    name: str  # unique within the property
    engine: str  # "E1" CrossHair | "E2" kernsym | "L" direct SMT lemma | "V" stub/translator validation (concrete)
    fn: str  # name of a function in the property module
    params: dict = field(default_factory=dict)  # JSON-able keyword arguments
    budget: float = 120.0  # seconds for the solver-based exploration
    bound: str = ""  # human-readable bound of this obligation
    twin: bool = True  # run the reachability twin (E1)
    per_path: float = 60.0
    weight: float = 1.0  # scheduling hint (expected seconds); longest first

    def key(self):
        return self.name
