"""L - direct SMT lemmas about environment models (DESIGN.md section 2.3)."""
from __future__ import annotations

import time

import z3


def _res(ok, queries, t0, msg="", **kw):
    d = dict(verdict="CONFIRMED" if ok else "INCONCLUSIVE", paths=queries, queries=queries, solver_s=round(time.time() - t0, 3), message=msg)
    d.update(kw)
    return d


def l1_fp_ceil(a_bits=40, b_max=2**17):
    """math.ceil(a / b) with IEEE-754 double division equals the exact ceiling, for 0 <= a < 2^a_bits, 1 <= b <= b_max.

    Real-arithmetic encoding with the IEEE axioms: r = RN(a/b) satisfies |r - q| <= q * 2^-53 and rounding is
    monotone and exact on integers below 2^53 (so q <= k => r <= k and q >= k => r >= k for integer k).
    Non-vacuity: the premises are satisfiable, and the claim becomes falsifiable when a may reach 2^60.
    """
    t0 = time.time()
    q = 0

    def build(abits):
        a, b, c = z3.Ints("a b c")
        r = z3.Real("r")
        eps = z3.Q(1, 2**53)
        prem = [
            a >= 0,
            a < 2**abits,
            b >= 1,
            b <= b_max,
            (c - 1) * b < a,
            a <= c * b,  # c = ceil(a/b)
            r * b - a <= a * eps,
            a - r * b <= a * eps,  # relative error of round-to-nearest
            r <= c,  # monotone + exact at the integer c (q <= c)
            r >= c - 1,  # monotone + exact at the integer c-1 (q > c-1)
        ]
        # math.ceil(r) == c  <=>  c-1 < r <= c
        claim = z3.And(r > c - 1, r <= c)
        return prem, claim

    prem, claim = build(a_bits)
    s = z3.Solver()
    s.set("timeout", 120_000)
    s.add(*prem)
    s.add(z3.Not(claim))
    r1 = s.check()
    q += 1
    s2 = z3.Solver()
    s2.set("timeout", 120_000)
    s2.add(*prem)
    r2 = s2.check()
    q += 1
    # the claim must fail when a is allowed to be large enough for the relative error to matter
    prem3, claim3 = build(70)
    s3 = z3.Solver()
    s3.set("timeout", 120_000)
    s3.add(*prem3)
    s3.add(z3.Not(claim3))
    r3 = s3.check()
    q += 1
    ok = str(r1) == "unsat" and str(r2) == "sat" and str(r3) == "sat"
    return _res(ok, q, t0, f"lemma={r1} premises={r2} widened={r3}", samples=[f"a<2^{a_bits}, b<={b_max}: unsat; premises sat; a<2^70: sat"])


def l1_fp_pow2(ebs=(1, 16, 65536), a_bits=40):
    """Bit-precise cross-check (QF_BVFP) for power-of-two divisors: ceil(RN(a / 2^k)) == (a + 2^k - 1) >> k."""
    t0 = time.time()
    q = 0
    bad = []
    for eb in ebs:
        a = z3.BitVec("a", 64)
        F = z3.Float64()
        fa = z3.fpUnsignedToFP(z3.RNE(), a, F)
        fb = z3.FPVal(float(eb), F)
        r = z3.fpDiv(z3.RNE(), fa, fb)
        c = z3.fpRoundToIntegral(z3.RTP(), r)
        ci = z3.fpToUBV(z3.RTZ(), c, z3.BitVecSort(64))
        k = eb.bit_length() - 1
        exact = z3.LShR(a + (eb - 1), k)
        s = z3.Solver()
        s.set("timeout", 120_000)
        s.add(z3.ULT(a, z3.BitVecVal(2**a_bits, 64)))
        s.add(ci != exact)
        res = s.check()
        q += 1
        if str(res) != "unsat":
            bad.append((eb, str(res)))
    return _res(not bad, q, t0, f"non-unsat: {bad}" if bad else "", samples=[f"eb={e}: unsat" for e in ebs])


def l2_cbor_head():
    """The CBOR head used by the model is shortest-form and invertible: bit-vector query per width class."""
    t0 = time.time()
    q = 0
    bad = []
    n = z3.BitVec("n", 64)
    classes = [(0, 24, 0), (24, 256, 1), (256, 65536, 2), (65536, 2**32, 4), (2**32, 2**64, 8)]
    for lo, hi, w in classes:
        s = z3.Solver()
        s.set("timeout", 60_000)
        s.add(z3.UGE(n, lo))
        if hi < 2**64:
            s.add(z3.ULT(n, hi))
        if w == 0:
            # value is carried in the initial byte: n % 32 == n and n < 24
            s.add(z3.Not(z3.And(z3.URem(n, 32) == n, z3.ULT(n, 24))))
        else:
            # bytes b_i = (n >> 8(w-1-i)) & 255 ; reassembly sum b_i * 256^(w-1-i) == n ; and n does not fit w/2 bytes
            re = z3.BitVecVal(0, 64)
            for i in range(w):
                sh = 8 * (w - 1 - i)
                re = re + ((z3.LShR(n, sh) & 255) << sh)
            s.add(z3.Not(z3.And(re == n, z3.UGE(n, lo))))
        res = s.check()
        q += 1
        if str(res) != "unsat":
            bad.append((w, str(res)))
    return _res(not bad, q, t0, str(bad) if bad else "", samples=["width classes 0,1,2,4,8: reassembly identity unsat-negated"])
