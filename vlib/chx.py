"""E1 driver: path-exhaustive symbolic execution of the real functions with CrossHair 0.0.110, through its API.

An obligation is a zero-argument harness.  It creates its symbolic leaves itself (sym_int/sym_bytes/sym_str/...),
calls real repository code, evaluates the property and ends with `return conclude(ok, **leaves)`.
`run_harness` maps CrossHair's result to CONFIRMED / VIOLATED (with realized leaves) / INCONCLUSIVE.
"""
from __future__ import annotations

import os
import sys
import time
import traceback

import crosshair.core_and_libs  # noqa: F401  (registers library models)
from crosshair import core as _core
from crosshair.core import CrossHairValue, deep_realize
from crosshair.core_and_libs import analyze_function, run_checkables
from crosshair.libimpl import builtinslib as _B
from crosshair.libimpl.builtinslib import (
    LazyIntSymbolicStr,
    SymbolicBool,
    SymbolicBoundedInt,
)
from crosshair.options import AnalysisOptionSet
from crosshair.statespace import context_statespace
from crosshair.tracers import NoTracing, ResumedTracing, is_tracing
from crosshair.util import IgnoreAttempt

# ------------------------------------------------------------------------------------------------ run state

STATE = {
    "twin": False,  # reachability-twin mode: conclude() returns False after reaching the assertion
    "paths": 0,  # harness invocations
    "reached": 0,  # invocations that reached conclude()
    "failed": None,  # realized leaves of the failing path
    "ignored": 0,
    "notes": [],
}


class Inconclusive(Exception):
    """Raised by harness helpers for situations that must never count as a pass."""


# ------------------------------------------------------------------------------------------------ symbolic leaves


def _uniq():
    return context_statespace().uniq()


def _reg(name, v):
    STATE.setdefault("leaves", {})[name] = v
    return v


def sym_int(name: str, lo: int, hi: int):
    """A symbolic int with lo <= v <= hi (created in-body: no premature-realization fork)."""
    with NoTracing():
        return _reg(name, SymbolicBoundedInt(name + _uniq(), int, lo, hi))


def sym_bool(name: str):
    if name in FIXED:
        r = bool(FIXED[name])
        with NoTracing():
            _reg(name, r)
        return r
    with NoTracing():
        return _reg(name, SymbolicBool(name + _uniq()))


def sym_sel(name: str, n: int):
    """Selector 0..n-1."""
    return sym_int(name, 0, n - 1)


def sym_bytes(name: str, n: int) -> bytes:
    """n symbolic bytes (fixed length).  bytes() MUST run under tracing, otherwise the ints are realized."""
    with NoTracing():
        sp = context_statespace()
        xs = [SymbolicBoundedInt(f"{name}{i}" + sp.uniq(), int, 0, 255) for i in range(n)]
    b = bytes(xs)
    with NoTracing():
        _reg(name, b)
    return b


def sym_str(name: str, maxlen: int, minlen: int = 0, ascii_only: bool = False) -> str:
    with NoTracing():
        s = _reg(name, LazyIntSymbolicStr(name + _uniq()))
    n = len(s)
    if n > maxlen or n < minlen:
        raise IgnoreAttempt("length bound")
    if ascii_only:
        for ch in s:
            if ord(ch) > 127:
                raise IgnoreAttempt("ascii bound")
    return s


FIXED = {}  # selector name -> option index: splits one obligation into several (the union is the stated bound)


def pick(name: str, options: list):
    """Solver-chosen element of a concrete list (forks len(options) ways)."""
    if name in FIXED:
        r = options[FIXED[name] % len(options)]
        with NoTracing():
            _reg(name, r)
        return r
    i = sym_sel(name + "#", len(options))
    r = options[-1]
    for j, o in enumerate(options[:-1]):
        if i == j:
            r = o
            break
    with NoTracing():
        _reg(name, r)
    return r


def assume(cond):
    if not cond:
        raise IgnoreAttempt("assumption")


def is_symbolic(x) -> bool:
    with NoTracing():
        return isinstance(x, CrossHairValue)


def realize(x):
    with NoTracing():
        try:
            return deep_realize(x)
        except Exception as e:  # noqa
            return f"<unrealizable {type(x).__name__}: {e}>"


# ------------------------------------------------------------------------------------------------ conclude


def _jsonable(x):
    if isinstance(x, (bytes, bytearray)):
        return {"__bytes__": bytes(x).hex()}
    if isinstance(x, dict):
        return {"__pairs__": [[_jsonable(k), _jsonable(v)] for k, v in x.items()]}
    if isinstance(x, (list, tuple)):
        return [_jsonable(i) for i in x]
    if isinstance(x, (int, str, bool, float)) or x is None:
        return x
    return repr(x)


def conclude(ok, **leaves) -> bool:
    """End of a harness: `ok` is the (possibly symbolic) truth of the property on this path."""
    with NoTracing():
        STATE["reached"] += 1
        twin = STATE["twin"]
    if twin:
        return False
    if ok:
        return True
    # failing path: the branch above has constrained the model; realize the leaves now
    with NoTracing():
        allv = dict(STATE.get("leaves", {}))
        allv.update(leaves)
        STATE["failed"] = {k: _jsonable(realize(v)) for k, v in allv.items()}
    return False


def fail(reason: str, **leaves) -> bool:
    """Unconditional failure of the current path (e.g. unexpected exception)."""
    with NoTracing():
        STATE["reached"] += 1
        if not STATE["twin"]:
            allv = dict(STATE.get("leaves", {}))
            allv.update(leaves)
            d = {k: _jsonable(realize(v)) for k, v in allv.items()}
            d["__reason__"] = reason
            STATE["failed"] = d
    return False


# ------------------------------------------------------------------------------------------------ stubs applied to CrossHair itself

_installed = False


def install_crosshair_patches():
    """format stub (f-strings with symbolic operands -> marker, no realization) and a non-realizing bytes.ljust."""
    global _installed
    if _installed:
        return
    _installed = True
    orig = _core._PATCH_REGISTRATIONS[format]

    def fmt(obj, spec=""):
        with NoTracing():
            plain = type(obj) in (int, str, bytes, float, bool, type(None))
        if plain:
            return orig(obj, spec)
        with NoTracing():
            if isinstance(obj, CrossHairValue):
                return "SYM"
            if isinstance(obj, (list, tuple, dict, set)) or hasattr(obj, "__dict__") or hasattr(obj, "__slots__"):
                return "SYM"
        return orig(obj, spec)

    _core._PATCH_REGISTRATIONS[format] = fmt

    # dict(mapping): CrossHair returns its ShellMutableMap, whose item assignment moves an existing key to the end -
    # real dicts keep the position.  For plain mappings with concrete keys build a real dict instead.
    orig_dict = _core._PATCH_REGISTRATIONS.get(dict)
    if orig_dict is not None:
        from vlib import cbormodel as _cm

        def dict_patch(*a, **kw):
            if len(a) == 1 and not kw:
                with NoTracing():
                    src = a[0]
                    plain = type(src) in (dict, _cm.frozendict, _cm.PairDict)
                    if plain:
                        items = list(src.items())
                        if type(src) is _cm.PairDict or any(isinstance(k, CrossHairValue) for k, _ in items):
                            return _cm.PairDict(items)
                        d = {}
                        for k, v in items:
                            d[k] = v
                        return d
            return orig_dict(*a, **kw)

        _core._PATCH_REGISTRATIONS[dict] = dict_patch

    # executing a module body under the tracer fails (class namespaces become CrossHair maps): modules loaded by path by the
    # repository's own loaders (sign/encrypt/KMS scripts) are executed untraced; the loader logic itself stays traced
    import importlib.machinery as _im

    if not getattr(_im.SourceFileLoader.exec_module, "_verif_wrapped", False):
        _orig_exec = _im.SourceFileLoader.exec_module

        def exec_module(self, module):
            with NoTracing():
                return _orig_exec(self, module)

        exec_module._verif_wrapped = True
        _im.SourceFileLoader.exec_module = exec_module

    # functools.lru_cache: CrossHair calls the wrapped function every time (cache skipped).  Memoisation is program behaviour (a stale
    # entry is a classic history bug), so it is modelled faithfully: per-wrapper table, keys compared with == (the solver decides for
    # symbolic arguments), emptied at the start of every path (each path is a fresh process after import).
    import functools as _ft

    def lru_call(self, *a, **kw):
        if not isinstance(self, _ft._lru_cache_wrapper):
            raise TypeError
        with NoTracing():
            table = LRU_MEMO.setdefault(id(self), [])
            n = len(table)
        for i in range(n):
            pa, pkw, res = table[i]
            if len(pa) == len(a) and len(pkw) == len(kw) and pa == a and pkw == kw:
                return res
        res = self.__wrapped__(*a, **kw)
        with NoTracing():
            table.append((a, dict(kw), res))
        return res

    def lru_clear(self):
        with NoTracing():
            LRU_MEMO.pop(id(self), None)

    _core._PATCH_REGISTRATIONS[_ft._lru_cache_wrapper.__call__] = lru_call
    _core._PATCH_REGISTRATIONS[_ft._lru_cache_wrapper.cache_clear] = lru_clear

    # explicit allocations sized by an integer: bytes(n) / bytearray(n).  A request far beyond any input size is recorded (the
    # harness of a property about memory use reads STATE["alloc_alarm"]) and answered with MemoryError, as a small machine would.
    for _typ in (bytes, bytearray):
        _orig_alloc = _core._PATCH_REGISTRATIONS.get(_typ)
        if _orig_alloc is None:
            continue

        def alloc_patch(*a, _orig=_orig_alloc, **kw):
            if len(a) == 1 and not kw and isinstance(a[0], int) and not isinstance(a[0], bool):
                if a[0] > ALLOC_LIMIT:
                    with NoTracing():
                        STATE["alloc_alarm"] = True
                    raise MemoryError("allocation request beyond the modelled limit")
            return _orig(*a, **kw)

        _core._PATCH_REGISTRATIONS[_typ] = alloc_patch

    def ljust(self, width, fill=b" "):
        n = len(self)
        if width <= n:
            return self
        return self + fill * (width - n)

    _B.BytesLike.ljust = ljust


FORMAT_MARKER = "SYM"
ALLOC_LIMIT = 1 << 20  # bytes(n) / bytearray(n) above this are flagged (inputs of the harnesses are a few dozen bytes)
LRU_MEMO = {}


# ------------------------------------------------------------------------------------------------ runner


def run_harness(harness, budget_s: float, per_path_s: float = 60.0, twin: bool = False) -> dict:
    """Run one harness to exhaustion.  Returns dict(verdict, paths, reached, seconds, message, cex)."""
    install_crosshair_patches()
    STATE.update(twin=twin, paths=0, reached=0, failed=None, ignored=0)

    def wrapped() -> bool:
        """
        post: _
        """
        with NoTracing():
            STATE["paths"] += 1
            STATE["leaves"] = {}
            STATE["alloc_alarm"] = False
            LRU_MEMO.clear()
        try:
            return harness()
        except Exception as e:  # an exception escaping the harness body is a failing path: record the leaves
            with NoTracing():
                if not STATE["twin"]:
                    d = {k: _jsonable(realize(v)) for k, v in STATE.get("leaves", {}).items()}
                    d["__exception__"] = type(e).__name__ + ": " + str(e)[:300]
                    STATE["failed"] = d
            return False

    wrapped.__name__ = getattr(harness, "__name__", "harness")
    wrapped.__qualname__ = wrapped.__name__
    wrapped.__module__ = harness.__module__
    opts = AnalysisOptionSet(
        per_condition_timeout=budget_s,
        per_path_timeout=per_path_s,
        report_all=True,
        max_uninteresting_iterations=10**9,
    )
    t0 = time.time()
    try:
        msgs = run_checkables(analyze_function(wrapped, opts))
    except Exception as e:  # noqa
        return dict(
            verdict="ERROR",
            paths=STATE["paths"],
            reached=STATE["reached"],
            seconds=time.time() - t0,
            message="driver exception: " + "".join(traceback.format_exception_only(type(e), e)).strip(),
            cex=None,
        )
    dt = time.time() - t0
    states = [m.state.name for m in msgs]
    message = "; ".join(f"{m.state.name}: {m.message}" for m in msgs)[:2000]
    if not msgs:
        verdict = "INCONCLUSIVE"
        message = "no analysis message"
    elif any(s in ("POST_FAIL", "EXEC_ERR", "POST_ERR", "PRE_INVALID", "SYNTAX_ERR", "IMPORT_ERR") for s in states):
        verdict = "VIOLATED"
    elif all(s == "CONFIRMED" for s in states):
        verdict = "CONFIRMED"
    else:
        verdict = "INCONCLUSIVE"
    return dict(
        verdict=verdict,
        paths=STATE["paths"],
        reached=STATE["reached"],
        seconds=round(dt, 3),
        message=message,
        cex=STATE["failed"],
        states=states,
    )
