"""Differential validation of vlib/cbormodel.py against the real cbor2 (concrete; runs at the start of checks).

(a) every CBOR-looking hex blob in the repository's tests, (b) generated values, (c) head-width boundaries,
(d) malformed / truncated inputs: both must raise some Exception or both return equal values *of equal Python
types and mutability*.
"""
from __future__ import annotations

import glob
import os
import random
import re

from vlib import cbormodel as M


def _same(a, b, path="$"):
    """a from the real cbor2, b from the model."""
    import cbor2

    if isinstance(a, cbor2.CBORTag):
        if not isinstance(b, M.CBORTag) or a.tag != b.tag:
            return f"{path}: tag {a!r} vs {b!r}"
        return _same(a.value, b.value, path + ".value")
    if type(a).__name__ == "frozendict":
        if not isinstance(b, M.frozendict):
            return f"{path}: frozendict vs {type(b).__name__}"
        ka, kb = list(a.keys()), list(b.keys())
        if len(ka) != len(kb):
            return f"{path}: map length"
        for x, y in zip(ka, kb):
            r = _same(x, y, path + ".key") or _same(a[x], b[y], path + f"[{x!r}]")
            if r:
                return r
        return None
    if isinstance(a, dict):
        if not isinstance(b, dict):
            return f"{path}: dict vs {type(b).__name__}"
        ka, kb = list(a.keys()), list(b.keys())
        if len(ka) != len(kb):
            return f"{path}: map length {len(ka)} vs {len(kb)}"
        for x, y in zip(ka, kb):
            r = _same(x, y, path + ".key") or _same(a[x], b[y], path + f"[{x!r}]")
            if r:
                return r
        return None
    if isinstance(a, (list, tuple)):
        if type(a) is not type(b):
            return f"{path}: {type(a).__name__} vs {type(b).__name__}"
        if len(a) != len(b):
            return f"{path}: length"
        for i, (x, y) in enumerate(zip(a, b)):
            r = _same(x, y, path + f"[{i}]")
            if r:
                return r
        return None
    if isinstance(a, (bool, int, str, bytes)) or a is None:
        if type(a) is not type(b) or a != b:
            return f"{path}: {a!r} vs {b!r}"
        return None
    if isinstance(a, float):
        if not isinstance(b, float) or (a != b and not (a != a and b != b)):
            return f"{path}: float {a!r} vs {b!r}"
        return None
    # semantic objects / simple values / undefined: the model only promises 'some other object'
    if isinstance(b, (M.Semantic, M.SimpleValue)):
        return None
    return f"{path}: real {type(a).__name__} vs model {type(b).__name__}"


def _to_model(v):
    import cbor2

    if isinstance(v, cbor2.CBORTag):
        return M.CBORTag(v.tag, _to_model(v.value))
    if isinstance(v, dict):
        return {(_to_model(k) if not isinstance(k, (list,)) else tuple(k)): _to_model(x) for k, x in v.items()}
    if isinstance(v, list):
        return [_to_model(x) for x in v]
    if isinstance(v, tuple):
        return tuple(_to_model(x) for x in v)
    return v


def _has_semantic(v):
    if isinstance(v, (M.Semantic, M.SimpleValue)):
        return True
    if isinstance(v, M.CBORTag):
        return _has_semantic(v.value)
    if isinstance(v, (list, tuple)):
        return any(_has_semantic(x) for x in v)
    if isinstance(v, (dict, M.frozendict)):
        return any(_has_semantic(k) or _has_semantic(x) for k, x in v.items())
    return False


def gen_value(rng, depth=0):
    k = rng.randrange(10 if depth < 3 else 6)
    if k == 0:
        return rng.choice([0, 1, 23, 24, 255, 256, 65535, 65536, 2**32 - 1, 2**32, 2**64 - 1, rng.randrange(2**64)])
    if k == 1:
        return -1 - rng.choice([0, 23, 24, 255, 256, 65535, 65536, 2**32 - 1, 2**32, 2**64 - 1, rng.randrange(2**64)])
    if k == 2:
        return bytes(rng.randrange(256) for _ in range(rng.choice([0, 1, 2, 23, 24, 30])))
    if k == 3:
        return "".join(rng.choice("ab#é€𝄞-0") for _ in range(rng.choice([0, 1, 3, 23, 24])))
    if k == 4:
        return rng.choice([None, True, False])
    if k == 5:
        return rng.choice([0, -1, b"", ""])
    if k in (6, 7):
        return [gen_value(rng, depth + 1) for _ in range(rng.randrange(4))]
    if k == 8:
        d = {}
        for _ in range(rng.randrange(4)):
            key = rng.choice([rng.randrange(30), -rng.randrange(1, 30), "k%d" % rng.randrange(5), (1, 2), b"k"])
            d[key] = gen_value(rng, depth + 1)
        return d
    import cbor2

    return cbor2.CBORTag(rng.choice([18, 96, 107, 6, 24, 99, 1000]), gen_value(rng, depth + 1))


def repo_blobs(repo):
    out = set()
    for f in glob.glob(os.path.join(repo, "tests", "**", "*.py"), recursive=True):
        try:
            txt = open(f, encoding="utf-8", errors="ignore").read()
        except OSError:
            continue
        for m in re.finditer(r"[\"']([0-9a-fA-F]{4,})[\"']", txt):
            h = m.group(1)
            if len(h) % 2 == 0:
                out.add(h.lower())
    return sorted(out)


def validate(repo="/repo", seed=0, n_generated=1500):
    import cbor2

    rng = random.Random(seed)
    cases = 0
    bad = []
    overapprox = [0]

    def both_load(b):
        nonlocal cases
        cases += 1
        try:
            ra = ("ok", cbor2.loads(b))
        except Exception as e:  # noqa
            ra = ("exc", type(e).__name__)
        try:
            rb = ("ok", M.plain_loads(b))
        except Exception as e:  # noqa
            rb = ("exc", type(e).__name__)
        if ra[0] != rb[0]:
            if ra[0] == "exc" and _has_semantic(rb[1]):
                # documented over-approximation: cbor2 validates the content of semantic tags (timestamp range,
                # regex syntax, ...); the model returns an opaque Semantic object instead of raising.  Harnesses
                # only use semantic-tag content that the real decoder accepts.
                overapprox[0] += 1
            else:
                bad.append(("loads outcome", b.hex()[:80], ra, rb))
        elif ra[0] == "ok":
            r = _same(ra[1], rb[1])
            if r:
                bad.append(("loads value", b.hex()[:80], r))

    for h in repo_blobs(repo):
        both_load(bytes.fromhex(h))
    for _ in range(n_generated):
        v = gen_value(rng)
        try:
            real = cbor2.dumps(v)
        except Exception:
            continue
        cases += 1
        try:
            mine = M.plain_dumps(_to_model(v))
        except Exception as e:  # noqa
            bad.append(("dumps raises", repr(v)[:80], type(e).__name__))
            continue
        if real != mine:
            bad.append(("dumps bytes", repr(v)[:80], real.hex()[:60], mine.hex()[:60]))
            continue
        both_load(real)
        # memo path must agree with the real round trip
        cases += 1
        b2 = M.dumps(_to_model(v))
        r = _same(cbor2.loads(real), M.loads(b2))
        if r:
            bad.append(("memo loads", repr(v)[:80], r))
        # truncations and single-byte edits
        if len(real) > 1:
            both_load(real[: rng.randrange(1, len(real))])
            i = rng.randrange(len(real))
            both_load(real[:i] + bytes([rng.randrange(256)]) + real[i + 1 :])
    for n in [0, 23, 24, 255, 256, 65535, 65536, 2**32 - 1, 2**32, 2**64 - 1]:
        for mt in range(7):
            for ai, w in ((24, 1), (25, 2), (26, 4), (27, 8)):
                if n < 2 ** (8 * w):
                    both_load(bytes([mt * 32 + ai]) + n.to_bytes(w, "big") + b"\x01\x02\x03")
    M.reset()
    return dict(
        verdict="CONFIRMED" if not bad else "ERROR",
        paths=cases,
        validated=cases,
        message=("cbor model disagrees with cbor2: " + repr(bad[:4])) if bad else "",
    )
