"""Environment models for kernsym (E2): files, cbor2.dumps/loads on abstract values, uuid5, IntelHex, hashes."""
from __future__ import annotations

import z3

from vlib.kernsym import PyRaise, _Recorder, Unsupported
from vlib.ksvalues import AbsStr, Obj, Rope, Seg, SInt, TokStr, is_sym, term


# ------------------------------------------------------------------------------------------------ files


class KFile(_Recorder):
    def __init__(self, fs, name, mode):
        self.fs, self.name, self.mode = fs, name, mode
        self.parts = []

    def __enter__(self):
        return self

    def __exit__(self, et, ev, tb):
        if "w" in self.mode:
            self.fs.ctx.log.append(("write", self.name, self.mode, list(self.parts)))
        return False

    def read(self, *a):
        return self.fs.files[self.name]

    def write(self, data):
        self.parts.append(data)

    def readlines(self):
        d = self.fs.files[self.name]
        return d.splitlines(True)


class KFS:
    """name -> content (bytes/str/Rope/TokStr).  Reads of unknown names raise FileNotFoundError."""

    def __init__(self, ctx, files=None):
        self.ctx = ctx
        self.files = dict(files or {})

    def model_open(self, it, args, kwargs):
        name = args[0]
        mode = args[1] if len(args) > 1 else kwargs.get("mode", "r")
        if is_sym(name):
            raise Unsupported("open() of a symbolic file name")
        name = str(name)
        if "r" in mode and name not in self.files:
            raise PyRaise(FileNotFoundError(2, "No such file or directory", name))
        return KFile(self, name, mode)


# ------------------------------------------------------------------------------------------------ cbor2


def cbor_head_rope(it, major, n):
    """Shortest CBOR head for a symbolic argument n (forks on the width class)."""
    m = major * 32
    if isinstance(n, int):
        from vlib import cbormodel

        return Rope.const(cbormodel.head(major, n))
    b = it.ctx.branch
    if b(n < 24):
        return Rope([Seg("int", m + n, 1, "big")])
    if b(n < 256):
        return Rope([Seg("const", bytes([m + 24])), Seg("int", n, 1, "big")])
    if b(n < 65536):
        return Rope([Seg("const", bytes([m + 25])), Seg("int", n, 2, "big")])
    if b(n < 2**32):
        return Rope([Seg("const", bytes([m + 26])), Seg("int", n, 4, "big")])
    return Rope([Seg("const", bytes([m + 27])), Seg("int", n, 8, "big")])


def model_cbor_dumps(it, args, kwargs):
    (x,) = args
    if isinstance(x, AbsStr):
        return cbor_head_rope(it, 3, x.ulen).concat(Rope([Seg("opaque", ("utf8", x.name, x.ident), x.ulen)]))
    if isinstance(x, Rope):
        n = x.length()
        return cbor_head_rope(it, 2, n if isinstance(n, int) else z3.simplify(n)).concat(x)
    if isinstance(x, SInt):
        if it.ctx.branch(x.t >= 0):
            return cbor_head_rope(it, 0, x.t)
        return cbor_head_rope(it, 1, -1 - x.t)
    if is_sym(x):
        raise Unsupported("cbor2.dumps of " + type(x).__name__)
    import cbor2

    try:
        return cbor2.dumps(x)
    except Exception as e:  # noqa
        raise PyRaise(e)


# ------------------------------------------------------------------------------------------------ uuid5


class UTok:
    """uuid5(ns, name) as an uninterpreted term: structural identity of (ns, name)."""

    def __init__(self, ns, name):
        self.ns, self.name = ns, name

    @property
    def key(self):
        ns = self.ns.key if isinstance(self.ns, UTok) else ("uuid", str(self.ns))
        nm = self.name.name if isinstance(self.name, AbsStr) else ("lit", self.name)
        return ("u5", ns, nm)

    @property
    def bytes(self):
        return Rope([Seg("opaque", self.key, 16)])

    @property
    def hex(self):
        raise Unsupported("hex of a uuid token")


def model_uuid5(it, args, kwargs):
    ns, name = args
    if isinstance(name, (AbsStr, TokStr)) or isinstance(ns, UTok):
        it.ctx.log.append(("uuid5", ns.key if isinstance(ns, UTok) else ("uuid", str(ns)), name.name if isinstance(name, AbsStr) else name))
        return UTok(ns, name)
    import uuid

    return uuid.uuid5(ns, name)


# ------------------------------------------------------------------------------------------------ hashes


class KHash(_Recorder):
    def __init__(self, it, alg):
        self.it, self.alg = it, alg
        self.parts = []

    def update(self, data):
        self.parts.append(data)

    def finalize(self):
        n = self.alg.digest_size
        idx = sum(1 for e in self.it.ctx.log if e[0] == "hash")
        self.it.ctx.log.append(("hash", self.alg.name, n, list(self.parts)))
        return Rope([Seg("opaque", ("hash", self.alg.name, idx), n)])


def make_hash_model():
    def model(it, args, kwargs):
        return KHash(it, args[0])

    return model


# ------------------------------------------------------------------------------------------------ Intel HEX


class AddressOverlapError(Exception):
    pass


class KHex(_Recorder):
    """IntelHex with symbolic addresses.  Content: list of (start term, Rope)."""

    def __init__(self, it, source=None, files=None):
        self.it = it
        self.segs = []
        self.padding = 0xFF
        if source is not None:
            if files is None or source not in files:
                raise PyRaise(FileNotFoundError(2, "No such file", source))
            self.segs = list(files[source])
            it.ctx.log.append(("hexload", source))

    def frombytes(self, data, offset=0):
        self.segs.append((term(offset), Rope.of(data)))

    def minaddr(self):
        return self._ext(lambda a, r: a, lambda x, y: x < y)

    def maxaddr(self):
        return self._ext(lambda a, r: a + term(r.length()) - 1, lambda x, y: x > y)

    def _ext(self, f, better):
        xs = [f(a, r) for a, r in self.segs]
        if not xs:
            return None
        m = xs[0]
        for x in xs[1:]:
            if self.it.ctx.branch(better(x, m)):
                m = x
        return SInt(z3.simplify(m))

    def merge(self, other, overlap="error"):
        for a, r in other.segs:
            for b, q in self.segs:
                la, lb = term(r.length()), term(q.length())
                if self.it.ctx.branch(z3.And(la > 0, lb > 0, a < b + lb, b < a + la)):
                    if overlap == "error":
                        raise PyRaise(AddressOverlapError("Data overlapped"))
            self.segs.append((a, r))

    def tobinstr(self, start=None, end=None, pad=None, size=None):
        if size is not None:
            raise Unsupported("tobinstr with size")
        if start is None:
            start = self.minaddr()
        if end is None:
            end = self.maxaddr()
        if start is None or end is None:
            return Rope()  # intelhex: no data and no bound -> empty string
        s, e = term(start), term(end)
        if self.it.ctx.branch(e < s):
            raise PyRaise(ValueError("tobinstr: end < start"))
        return Rope([Seg("area", s, e, list(self.segs), self.padding if pad is None else pad)])

    def write_hex_file(self, name, *a, **kw):
        self.it.ctx.log.append(("hexwrite", name, list(self.segs)))


def make_hex_model(files=None):
    def model(it, args, kwargs):
        src = args[0] if args else kwargs.get("source")
        return KHex(it, src, files)

    return model


# ------------------------------------------------------------------------------------------------ struct


class KStruct(_Recorder):
    """struct.Struct(fmt) for little/big-endian unsigned fields B H I Q with symbolic values."""

    SIZES = {"B": 1, "H": 2, "I": 4, "L": 4, "Q": 8}

    def __init__(self, it, fmt):
        self.it, self.format = it, fmt
        if not fmt or fmt[0] not in "<>":
            raise Unsupported("struct format without explicit byte order")
        self.order = "little" if fmt[0] == "<" else "big"
        self.fields = []
        for ch in fmt[1:]:
            if ch not in self.SIZES:
                raise Unsupported("struct format character " + ch)
            self.fields.append(self.SIZES[ch])
        self.size = sum(self.fields)

    def pack(self, *vals):
        import struct as _st

        if len(vals) != len(self.fields):
            raise PyRaise(_st.error(f"pack expected {len(self.fields)} items for packing (got {len(vals)})"))
        r = Rope()
        for w, v in zip(self.fields, vals):
            t = term(v)
            if self.it.ctx.branch(z3.Or(t < 0, t >= 256**w)):
                raise PyRaise(_st.error("argument out of range"))
            r = r.concat(Rope([Seg("int", z3.simplify(t), w, self.order)]))
        return r


def make_struct_model():
    def model(it, args, kwargs):
        return KStruct(it, args[0])

    return model
