"""Reference encoder of the tool's description language into SUIT/COSE CBOR, written from the specifications
(SUIT manifest / trust-domains / update-management / firmware-encryption drafts, RFC 9052/9053, RFC 8392) with the
registry of vlib/registry.py.  It shares only the CBOR atom encoder (cbormodel.plain_dumps) with the system under test.

Descriptions are the dict/list trees users write in YAML/JSON.  Byte-string leaves are hex strings; under symbolic
execution they may be `HexStr` carriers (vlib/hexprov.py) whose `.prov` holds the (symbolic) bytes.
Not supported on purpose (excluded by C02): the unsevered text map inside the manifest and suit-delegation.
"""
from __future__ import annotations

import json

from vlib import registry as R
from vlib.cbormodel import CBORTag, PairDict
from vlib.cbormodel import dumps as plain_dumps  # registers provenance: the tool may re-decode reference-built files (C05) structurally


class RefencError(Exception):
    """The description is outside the reference grammar (the tool must reject it too, or it is an excluded form)."""


class Excluded(RefencError):
    pass


def dumps(v) -> bytes:
    return plain_dumps(v)


def BW(v) -> bytes:
    """bstr .cbor wrapping: the CBOR encoding of v, to be carried as a byte string."""
    return plain_dumps(v)


def hexbytes(s) -> bytes:
    prov = getattr(s, "prov", None)
    if prov is not None:
        return prov
    if not isinstance(s, str):
        raise RefencError("hex string expected")
    return bytes.fromhex(s)


def M(pairs):
    """Ordered CBOR map (PairDict never hashes keys, so symbolic keys are fine)."""
    return PairDict(pairs)


def code(space, name):
    for n, c in space.items():
        if n == name:
            return c
    raise RefencError(f"unknown name {name!r}")


class Ctx:
    """Environment of a reference encoding: how digests of files/envelopes are computed and files are read."""

    def __init__(self, hasher=None, read_file=None, uuid5=None):
        self.hasher = hasher  # (alg_name, data bytes) -> digest bytes
        self.read_file = read_file  # name -> bytes
        self.uuid5 = uuid5  # (namespace or None, name) -> 16 bytes ; namespace is 16 bytes of the vendor uuid or None for DNS


# ------------------------------------------------------------------------------------------------ leaves


def uuid_bytes(d, ctx):
    if not isinstance(d, dict):
        raise RefencError("uuid description must be a dict")
    if "RFC4122_UUID" in d:
        u = d["RFC4122_UUID"]
        if isinstance(u, dict):
            if "name" not in u:
                raise RefencError("uuid without name")
            ns = ctx.uuid5(None, u["namespace"]) if "namespace" in u else None
            return ctx.uuid5(ns, u["name"])
        return ctx.uuid5(None, u)
    if "raw" in d:
        return hexbytes(d["raw"])
    raise RefencError("uuid form")


def policy(lst):
    if not isinstance(lst, list):
        raise RefencError("policy must be a list")
    v = 0
    for n in lst:
        v = v + code(R.POLICY_BITS, n)
    return v


def digest(d, ctx):
    """SUIT_Digest = [alg, bstr]."""
    if not isinstance(d, dict):
        raise RefencError("digest must be a dict")
    alg = d["suit-digest-algorithm-id"]
    a = code(R.HASH_ALGS, alg)
    b = d.get("suit-digest-bytes", "")
    if isinstance(b, dict):
        if "raw" in b:
            data = hexbytes(b["raw"])
        elif "file" in b:
            data = ctx.hasher(alg, ctx.read_file(b["file"]))
        elif "file_direct" in b:
            data = ctx.read_file(b["file_direct"])
        elif "envelope" in b:
            e = b["envelope"]
            env = envelope(e, ctx) if isinstance(e, dict) else ctx.read_file(e)
            data = ctx.hasher(alg, manifest_bstr_of(env))
        else:
            raise RefencError("digest bytes form")
    else:
        data = hexbytes(b)
    return [a, data]


def manifest_bstr_of(env_bytes):
    """The byte-string-wrapped manifest (member 3, including its bstr head) inside an encoded envelope."""
    from vlib.cbormodel import plain_loads

    v = plain_loads(env_bytes)
    inner = v.value
    for k, x in inner.items():
        if k == 3:
            return plain_dumps(x)
    raise RefencError("no manifest in envelope")


def component_id(parts, ctx):
    out = []
    for p in parts:
        if isinstance(p, dict):
            out.append(uuid_bytes(p, ctx))
        elif isinstance(p, bool):
            raise RefencError("bool component id part")
        elif isinstance(p, str):
            if len(p) == 1:
                out.append(p.encode("utf-8"))  # single character: the raw character (tool convention 'M', 'I', ...)
            else:
                out.append(BW(p))
        elif isinstance(p, int):
            out.append(BW(p))
        else:
            raise RefencError("component id part")
    return out


def version_list(v):
    if isinstance(v, list):
        return list(v)
    raise RefencError("version strings are C20's business")


# ------------------------------------------------------------------------------------------------ COSE


def header_map(d):
    pairs = []
    for k, v in d.items():
        c = code(R.HEADER_KEYS, k)
        if c == 1:
            pairs.append((1, code(R.COSE_ALGS, v)))
        elif c == 4:
            if isinstance(v, int) and not isinstance(v, bool):
                pairs.append((4, BW(v)))
            else:
                pairs.append((4, hexbytes(v)))
        else:
            pairs.append((5, hexbytes(v)))
    return M(pairs)


def protected(d):
    return BW(header_map(d))


def protected_optional(d):
    if d == {} or d == "" or d == b"":
        return b""
    return BW(header_map(d))


def cwt(d):
    pairs = []
    for k, v in d.items():
        c = code(R.CWT_CLAIMS, k)
        if c == 7:
            pairs.append((c, hexbytes(v)))
        else:
            pairs.append((c, v))
    return M(pairs)


def sign1(d, cwt_payload_as_bstr=True):
    """COSE_Sign1 = [protected bstr, unprotected map, payload bstr / nil, signature bstr] (RFC 9052 4.2)."""
    pl = d["payload"]
    if pl is None:
        payload = None
    else:
        payload = BW(cwt(pl)) if cwt_payload_as_bstr else cwt(pl)
    return [protected(d["protected"]), header_map(d["unprotected"]), payload, hexbytes(d["signature"])]


def auth_block(d, **kw):
    return BW(CBORTag(18, sign1(d["CoseSign1Tagged"], **kw)))


def authentication(d, ctx, **kw):
    """SUIT_Authentication = [bstr .cbor SUIT_Digest, * bstr .cbor COSE_Sign1_Tagged], itself bstr-wrapped."""
    items = [BW(digest(d["SuitDigest"], ctx))]
    for k, v in d.items():
        if k != "SuitDigest" and k.startswith("SuitAuthentication"):
            items.append(auth_block(v, **kw))
    return BW(items)


def ciphertext(v):
    return None if v is None else hexbytes(v)


def recipient(d):
    out = [protected_optional(d["protected"]), header_map(d["unprotected"]), ciphertext(d["ciphertext"])]
    for k, v in d.items():
        if k.startswith("recipients"):
            out.append([recipient(r) for r in v])
    return out


def cose_encrypt(d):
    e = d["CoseEncryptTagged"]
    return CBORTag(96, [protected(e["protected"]), header_map(e["unprotected"]), ciphertext(e["ciphertext"]), [recipient(r) for r in e["recipients"]]])


def encryption_info(d, ctx):
    if "CoseEncryptTagged" in d:
        return BW(cose_encrypt(d))
    from vlib.cbormodel import plain_loads

    if "raw" in d:
        return plain_loads(hexbytes(d["raw"]))  # already bstr-wrapped: carried unchanged
    if "file" in d:
        return plain_loads(ctx.read_file(d["file"]))
    raise RefencError("encryption info form")


# ------------------------------------------------------------------------------------------------ commands


def parameters(d, ctx):
    pairs = []
    for k, v in d.items():
        c = code(R.PARAMETERS, k)
        if c in (1, 2, 24):
            pairs.append((c, uuid_bytes(v, ctx)))
        elif c == 3:
            pairs.append((c, BW(digest(v, ctx))))
        elif c in (5, 22):
            _uint(v)
            pairs.append((c, v))
        elif c in (12, 13):
            if not isinstance(v, bool):
                raise RefencError("bool expected")
            pairs.append((c, v))
        elif c == 14:
            pairs.append((c, image_size(v, ctx)))
        elif c == 18:
            if isinstance(v, int) and not isinstance(v, bool):
                _uint(v)
                pairs.append((c, BW(v)))
            else:
                pairs.append((c, hexbytes(v)))
        elif c == 19:
            pairs.append((c, encryption_info(v, ctx)))
        elif c == 21:
            if not isinstance(v, str):
                raise RefencError("uri must be text")
            pairs.append((c, v))
        elif c == 23:
            inner = []
            for kk, vv in v.items():
                cc = code(R.INVOKE_ARGS, kk)
                inner.append((cc, vv))
            pairs.append((c, BW(M(inner))))
        elif c == 28:
            inner = []
            for kk, vv in v.items():
                inner.append(code(R.VERSION_COMPARISON, kk))
                inner.append(version_list(vv))
            pairs.append((c, BW(inner)))
    return M(pairs)


def _uint(v):
    if not isinstance(v, int) or isinstance(v, bool) or v < 0:
        raise RefencError("unsigned integer expected")


def image_size(d, ctx):
    if "raw" in d:
        _uint(d["raw"])
        return d["raw"]
    if "file" in d:
        return len(ctx.read_file(d["file"]))
    if "envelope" in d:
        e = d["envelope"]
        return len(envelope(e, ctx) if isinstance(e, dict) else ctx.read_file(e))
    if "file_direct" in d:
        return int(ctx.read_file(d["file_direct"]))
    raise RefencError("image size form")


def index_arg(v):
    if isinstance(v, bool):
        return v
    if isinstance(v, int):
        _uint(v)
        return v
    if isinstance(v, list):
        return list(v)
    raise RefencError("component index")


def command_sequence(lst, ctx):
    """SUIT_Command_Sequence = [ + (code, argument) ] flat."""
    out = []
    for cmd in lst:
        for name, arg in cmd.items():
            c = None
            for n, cc in R.CONDITIONS.items():
                if n == name:
                    c = cc
                    out.append(c)
                    out.append(policy(arg))
                    break
            if c is not None:
                continue
            c = code(R.DIRECTIVES, name)
            out.append(c)
            if c == 12:
                out.append(index_arg(arg))
            elif c == 15:
                out.append([BW(command_sequence(s, ctx)) for s in arg])
            elif c == 32:
                out.append(BW(command_sequence(arg, ctx)))
            elif c in (19, 20):
                out.append(parameters(arg, ctx))
            else:
                out.append(policy(arg))
    return out


# ------------------------------------------------------------------------------------------------ manifest / envelope


def common(d, ctx):
    pairs = []
    for k, v in d.items():
        c = code(R.COMMON, k)
        if c == 1:
            deps = []
            for idx, meta in v.items():
                i = json.loads(idx) if isinstance(idx, str) else idx
                _uint(i)
                mm = []
                for kk, vv in meta.items():
                    mm.append((code(R.DEPENDENCY_METADATA, kk), component_id(vv, ctx)))
                deps.append((i, M(mm)))
            pairs.append((c, M(deps)))
        elif c == 2:
            pairs.append((c, [component_id(x, ctx) for x in v]))
        else:
            pairs.append((c, BW(command_sequence(v, ctx))))
    return M(pairs)


def text_map(d, ctx):
    langs = []
    for lang, entries in d.items():
        ee = []
        for k, v in entries.items():
            c = None
            for n, cc in R.TEXT_KEYS.items():
                if n == k:
                    c = cc
            if c is not None:
                ee.append((c, v))
            else:
                cid = json.loads(k)
                inner = []
                for kk, vv in v.items():
                    inner.append((code(R.TEXT_COMPONENT_KEYS, kk), vv))
                ee.append((tuple(component_id(cid, ctx)), M(inner)))
        langs.append((lang, M(ee)))
    return M(langs)


def manifest(d, ctx):
    pairs = []
    for k, v in d.items():
        c = code(R.MANIFEST, k)
        if c in (1, 2):
            _uint(v)
            pairs.append((c, v))
        elif c == 3:
            pairs.append((c, BW(common(v, ctx))))
        elif c == 4:
            pairs.append((c, v))
        elif c == 5:
            pairs.append((c, component_id(v, ctx)))
        elif c == 6:
            pairs.append((c, BW(version_list(v))))
        elif k in R.PLAIN_SEQUENCES:
            pairs.append((c, BW(command_sequence(v, ctx))))
        elif k in R.SEVERABLE_SEQUENCES:
            if isinstance(v, dict):
                pairs.append((c, digest(v, ctx)))
            else:
                pairs.append((c, BW(command_sequence(v, ctx))))
        elif c == 23:
            if isinstance(v, dict) and "suit-digest-algorithm-id" in v:
                pairs.append((c, digest(v, ctx)))
            else:
                raise Excluded("text map embedded unsevered in the manifest")
    return M(pairs)


def payload_bytes(v, ctx):
    if isinstance(v, dict):
        return envelope(v, ctx)
    prov = getattr(v, "prov", None)
    if prov is not None:
        return prov
    if isinstance(v, str) and all(ch in "0123456789abcdefABCDEF" for ch in v):
        return bytes.fromhex(v)
    return ctx.read_file(v)


SEVERED_ENVELOPE_MEMBERS = {"suit-dependency-resolution": 15, "suit-payload-fetch": 16, "suit-install-legacy": 17, "suit-candidate-verification": 18, "suit-install": 20}


def envelope_map(d, ctx, **kw):
    """Members in description order, with digests recomputed the way create does it (the manifest's severed-member
    digests from the severed members present, then the wrapper digest from the wrapped manifest)."""
    # 1. severed members' wrapped bytes
    severed = {}
    for k, v in d.items():
        if k in SEVERED_ENVELOPE_MEMBERS:
            severed[k] = plain_dumps(BW(command_sequence(v, ctx)))
        elif k == "suit-text":
            severed[k] = plain_dumps(BW(text_map(v, ctx)))
    # 2. manifest with refreshed severed digests
    mdesc = d["suit-manifest"]
    mpairs = manifest(mdesc, ctx)
    for k, v in mdesc.items():
        if k in severed and isinstance(v, dict) and "suit-digest-algorithm-id" in v:
            c = code(R.MANIFEST, k)
            mpairs[c] = [code(R.HASH_ALGS, v["suit-digest-algorithm-id"]), ctx.hasher(v["suit-digest-algorithm-id"], severed[k])]
    mwrapped = BW(mpairs)
    pairs = []
    for k, v in d.items():
        if k == "suit-authentication-wrapper":
            alg = v["SuitDigest"]["suit-digest-algorithm-id"]
            items = [BW([code(R.HASH_ALGS, alg), ctx.hasher(alg, plain_dumps(mwrapped))])]
            for kk, vv in v.items():
                if kk != "SuitDigest" and kk.startswith("SuitAuthentication"):
                    items.append(auth_block(vv, **kw))
            pairs.append((2, BW(items)))
        elif k == "suit-manifest":
            pairs.append((3, mwrapped))
        elif k in SEVERED_ENVELOPE_MEMBERS:
            pairs.append((SEVERED_ENVELOPE_MEMBERS[k], BW(command_sequence(v, ctx))))
        elif k == "suit-text":
            pairs.append((23, BW(text_map(v, ctx))))
        elif k in R.ENVELOPE_FLATTENED:
            for name, val in v.items():
                pairs.append((name, payload_bytes(val, ctx)))
        elif k == "suit-delegation":
            raise Excluded("suit-delegation")
        else:
            raise RefencError(f"unknown envelope member {k!r}")
    return M(pairs)


def envelope(desc, ctx, **kw) -> bytes:
    return plain_dumps(CBORTag(107, envelope_map(desc["SUIT_Envelope_Tagged"], ctx, **kw)))


# COSE structures used by sign / encrypt (C04, C06)


def sig_structure(protected_bstr: bytes, digest_bstr: bytes) -> bytes:
    """Sig_structure = ["Signature1", body_protected, external_aad h'', payload] (RFC 9052 4.4), payload = bstr SUIT_Digest."""
    return plain_dumps(["Signature1", protected_bstr, b"", digest_bstr])


def enc_structure(protected_bstr: bytes) -> bytes:
    """Enc_structure = ["Encrypt", protected, external_aad h''] (RFC 9052 5.3)."""
    return plain_dumps(["Encrypt", protected_bstr, b""])
