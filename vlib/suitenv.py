"""Shared symbolic environment for the envelope model properties (C01, C02, C03, C05, C07, C18, C19)."""
from __future__ import annotations

import uuid as real_uuid


class Env:
    pass


_ENV = None


def setup():
    """Install the models/stubs once per process and return handles."""
    global _ENV
    if _ENV is not None:
        return _ENV
    from vlib import repoenv, stubs

    repoenv.prepare_symbolic()
    import suit_generator.suit.envelope as EN
    import suit_generator.suit.manifest as MF
    import suit_generator.suit.payloads as PL
    import suit_generator.suit.security as SE
    import suit_generator.suit.types.common as CM

    from vlib import hexprov, refenc

    import suit_generator.input_output as IO

    hexprov.install(CM, EN, IO)
    # error-message formatting: pretty_format_obj() yaml-dumps the offending object (C code: realizes symbolic leaves and
    # enumerates them).  It only feeds exception texts; stubbed to a constant ("formatting and logging get empty bodies").
    CM.PrettyPrintHelperMixin.pretty_format_obj = staticmethod(lambda obj: "<object>")
    # _convert_version_part defines a nested Enum class: a class body cannot be created under the tracer (its namespace becomes a
    # CrossHair map).  Version strings in these harnesses are concrete; the conversion runs untraced (C20 decides it with E2).
    from crosshair.tracers import NoTracing as _NT

    _orig_cvp = MF.SuitComponentVersion.__dict__["_convert_version_part"].__func__

    def _cvp(part):
        with _NT():
            return _orig_cvp(part)

    MF.SuitComponentVersion._convert_version_part = staticmethod(_cvp)
    SE.hashes = stubs.HashesProxy(SE.hashes)
    proxy = stubs.UuidProxy(real_uuid)
    MF.uuid = proxy
    fs = stubs.FS()
    SE.open = fs.open
    MF.open = fs.open
    PL.open = fs.open
    EN.open = fs.open

    # library-level file-system entry points (pathlib's stat family, os.path.*, os.stat/lstat, os.open, shutil.copyfile, ...) are
    # answered by the same in-memory file system: a change that reaches a file through another door than the seams above still
    # sees the harness's files (and symbolic links)
    from vlib import vfs

    vfs.install(fs)

    def uuid5(ns, name):
        if ns is None:
            return proxy.uuid5(real_uuid.NAMESPACE_DNS, name).bytes
        for t in stubs.UuidProxy.LOG:
            if t.bytes == ns:
                return proxy.uuid5(t, name).bytes
        raise refenc.RefencError("namespace token not found")

    e = Env()
    e.EN, e.MF, e.PL, e.SE, e.CM = EN, MF, PL, SE, CM
    e.fs, e.stubs, e.proxy = fs, stubs, proxy
    e.ctx = refenc.Ctx(stubs.stub_hasher, fs.read, uuid5)
    e.refenc = refenc
    _ENV = e
    return e


def reset(e):
    from vlib import cbormodel

    cbormodel.reset()
    e.stubs.HashLog.reset()
    e.stubs.UuidProxy.LOG = []
    e.fs.names, e.fs.contents, e.fs.writes, e.fs.opened = [], [], [], []
    e.fs.dirs, e.fs.removed = [], []


def hexleaf(b):
    """Description leaf for a byte string: provenance-carrying hex string."""
    from vlib.hexprov import HexStr

    return HexStr(b)


# concrete context for replays (real hashlib / uuid / files)


def concrete_ctx(read_file=None):
    import hashlib

    from vlib import refenc
    from vlib import registry as R

    def hasher(alg, data):
        h = hashlib.new(R.HASHLIB_NAMES[alg])
        h.update(data)
        return h.digest(R.HASH_SIZES[alg]) if "shake" in alg else h.digest()

    def u5(ns, name):
        return real_uuid.uuid5(real_uuid.UUID(bytes=ns) if ns else real_uuid.NAMESPACE_DNS, name).bytes

    def rd(n):
        with open(n, "rb") as fh:
            return fh.read()

    return refenc.Ctx(hasher, read_file or rd, u5)
