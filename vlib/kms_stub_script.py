"""KMS script handed to the real ncs/sign_script.py / encrypt_script.py loaders (`--kms-script`): the recording KMS of vlib/stubs.py.
Loaded through the repository's own import-by-path code, so that loader/caching logic stays inside the analysed code."""
from suit_generator.suit_kms_base import SuitKMSBase

from vlib import stubs


class StubKMS(stubs.KMSRecorder, SuitKMSBase):
    pass


def suit_kms_factory():
    return StubKMS()
