"""Orchestrator:  ./check <ID> [--tier quick|thorough] [--replay file] [--only substr] [--jobs N]

Exit codes: 0 all obligations discharged (or only listed known findings); 1 reproduced unlisted violation
(prints `VIOLATION property=<id> replay=<path>`); 2 inconclusive; 3 harness error.
"""
from __future__ import annotations

import argparse
import concurrent.futures as cf
import hashlib
import importlib
import json
import os
import subprocess
import sys
import time

HERE = os.path.dirname(os.path.dirname(os.path.abspath(__file__)))
REPO = os.environ.get("VERIF_REPO", "/repo")


def _run_worker(modname, ob, tier, extra, log):
    cmd = [sys.executable, "-m", "vlib.worker", modname, ob.name, tier, json.dumps(extra)]
    hard = ob.budget * (2.2 if ob.engine == "E1" else 1.2) + 120
    t0 = time.time()
    try:
        p = subprocess.run(cmd, cwd=HERE, capture_output=True, text=True, timeout=hard)
        out = p.stdout
        for line in reversed(out.splitlines()):
            if line.startswith("RESULT "):
                r = json.loads(line[7:])
                break
        else:
            r = {"name": ob.name, "verdict": "ERROR", "message": "no RESULT line; stderr tail: " + p.stderr[-1500:]}
    except subprocess.TimeoutExpired:
        r = {"name": ob.name, "verdict": "INCONCLUSIVE", "message": f"hard timeout {hard:.0f}s"}
    r.setdefault("wall_s", round(time.time() - t0, 3))
    r["engine"] = ob.engine
    r["bound"] = ob.bound
    return r


def _replay(modname, replay_path):
    cmd = [sys.executable, "-m", "vlib.replay", modname, replay_path]
    try:
        p = subprocess.run(cmd, cwd=HERE, capture_output=True, text=True, timeout=900)
    except subprocess.TimeoutExpired:
        return {"reproduced": None, "detail": "replay timeout"}
    for line in reversed(p.stdout.splitlines()):
        if line.startswith("REPLAY "):
            return json.loads(line[7:])
    return {"reproduced": None, "detail": "replay crashed: " + (p.stderr or p.stdout)[-1500:]}


def load_findings():
    path = os.path.join(HERE, "known_findings.json")
    if not os.path.exists(path):
        return []
    with open(path) as fh:
        return json.load(fh).get("findings", [])


def main(argv=None):
    ap = argparse.ArgumentParser()
    ap.add_argument("prop")
    ap.add_argument("--tier", default=os.environ.get("VERIF_TIER", "quick"), choices=["quick", "thorough"])
    ap.add_argument("--replay")
    ap.add_argument("--only")
    ap.add_argument("--jobs", type=int, default=int(os.environ.get("VERIF_JOBS", "16")))
    ap.add_argument("--no-evidence", action="store_true")
    a = ap.parse_args(argv)
    pid = a.prop.upper()
    modname = "props." + pid.lower()
    seed = int(os.environ.get("VERIF_SEED", "0") or 0)
    sys.path.insert(0, HERE)
    mod = importlib.import_module(modname)

    if a.replay:
        r = _replay(modname, a.replay)
        print(json.dumps(r, indent=1))
        if r.get("reproduced"):
            print(f"VIOLATION property={pid} replay={a.replay}")
            return 1
        return 0 if r.get("reproduced") is False else 3

    t0 = time.time()
    obs = mod.obligations(a.tier)
    if a.only:
        obs = [o for o in obs if a.only in o.name]
    known = [f for f in load_findings() if f["property"] == pid and f.get("status") == "known"]
    results = []
    exit_code = 0
    lines = []
    violations = 0
    known_hits = []

    def launch(ob, extra):
        return _run_worker(modname, ob, a.tier, extra, None)

    pending = sorted(obs, key=lambda o: -o.weight)
    with cf.ThreadPoolExecutor(max_workers=max(1, a.jobs)) as ex:
        futs = {ex.submit(launch, ob, {}): (ob, []) for ob in pending}
        while futs:
            done, _ = cf.wait(list(futs), return_when=cf.FIRST_COMPLETED)
            for fu in done:
                ob, excluded = futs.pop(fu)
                r = fu.result()
                r["excluded_findings"] = list(excluded)
                v = r.get("verdict")
                if v == "VIOLATED":
                    # store replay file, replay on unpatched code
                    cex = r.get("cex")
                    blob = json.dumps({"property": pid, "obligation": ob.name, "params": ob.params, "cex": cex}, sort_keys=True)
                    h = hashlib.sha1(blob.encode()).hexdigest()[:10]
                    rdir = os.path.join(HERE, "replays", pid)
                    os.makedirs(rdir, exist_ok=True)
                    rpath = os.path.join(rdir, f"{ob.name}-{h}.json")
                    with open(rpath, "w") as fh:
                        fh.write(blob)
                    rr = _replay(modname, rpath)
                    r["replay"] = rr
                    r["replay_file"] = rpath
                    if rr.get("reproduced") is True:
                        fid = rr.get("finding")
                        match = next((f for f in known if f["id"] == fid), None) if fid else None
                        if match is not None and fid not in excluded:
                            known_hits.append((match, ob.name))
                            lines.append(f"KNOWN-FINDING: property={pid} {match['what']} [obligation {ob.name}]")
                            r["verdict"] = "KNOWN-FINDING"
                            # re-run with the finding's predicate assumed away, so another violation is still found
                            ex2 = excluded + [fid]
                            futs[ex.submit(launch, ob, {"params": {"exclude": ex2}})] = (ob, ex2)
                            os.remove(rpath)
                        else:
                            violations += 1
                            lines.append(f"VIOLATION property={pid} replay={rpath}")
                            exit_code = max(exit_code, 1) if exit_code != 3 else 3
                    elif rr.get("reproduced") is False:
                        r["verdict"] = "ERROR"
                        r["message"] = "counterexample does not reproduce on the unpatched code (model error): " + str(rr.get("detail"))
                        exit_code = 3
                        lines.append(f"HARNESS-ERROR property={pid} obligation={ob.name} {r['message'][:600]} cex={json.dumps(cex)[:600]} [{rpath}]")
                    else:
                        r["verdict"] = "ERROR"
                        exit_code = 3
                        lines.append(f"HARNESS-ERROR property={pid} obligation={ob.name} replay failed: {str(rr.get('detail'))[:1200]} [{rpath}]")
                elif v in ("INCONCLUSIVE",):
                    if exit_code == 0:
                        exit_code = 2
                    lines.append(f"INCONCLUSIVE property={pid} obligation={ob.name} {str(r.get('message'))[:300]}")
                elif v in ("ERROR", "VACUOUS") or v is None:
                    exit_code = 3
                    lines.append(f"HARNESS-ERROR property={pid} obligation={ob.name} {v}: {str(r.get('message'))[:1500]}")
                results.append(r)
                tag = r.get("verdict")
                print(
                    f"[{pid}] {ob.name:<44} {tag:<13} paths={r.get('paths', '-')} q={r.get('queries', '-')} "
                    f"{r.get('wall_s', 0):.1f}s  {ob.bound[:70]}",
                    flush=True,
                )
    wall = time.time() - t0
    if violations > 0:
        # a violation reproduced on the unpatched code is real whatever else was inconclusive or failed
        exit_code = 1
    for ln in lines:
        print(ln)
    if not a.no_evidence and not a.only:
        write_evidence(mod, pid, a.tier, seed, results, wall, violations, known_hits)
    ok = sum(1 for r in results if r.get("verdict") in ("CONFIRMED", "KNOWN-FINDING"))
    print(f"[{pid}] tier={a.tier} obligations={len(results)} discharged={ok} violations={violations} exit={exit_code} wall={wall:.1f}s")
    return exit_code


def write_evidence(mod, pid, tier, seed, results, wall, violations, known_hits):
    meta = getattr(mod, "META", {})
    files = meta.get("files", [])
    shas = {}
    for f in files:
        try:
            with open(os.path.join(REPO, f), "rb") as fh:
                shas[f] = hashlib.sha1(fh.read()).hexdigest()
        except OSError:
            shas[f] = "missing"
    paths = sum(int(r.get("paths") or 0) for r in results)
    reached = sum(int(r.get("reached") or r.get("paths") or 0) for r in results)
    queries = sum(int(r.get("queries") or 0) for r in results)
    solver_s = round(sum(float(r.get("solver_s") or r.get("seconds") or 0) for r in results), 2)
    discharged = sum(1 for r in results if r.get("verdict") == "CONFIRMED")
    samples = []
    for r in results[:400]:
        s = {
            "obligation": r.get("name"),
            "engine": r.get("engine"),
            "bound": r.get("bound"),
            "verdict": r.get("verdict"),
            "paths": r.get("paths"),
            "queries": r.get("queries"),
            "seconds": r.get("seconds", r.get("wall_s")),
        }
        for k in ("twin", "samples", "validated", "observations", "mutants", "excluded_findings"):
            if r.get(k):
                s[k] = r[k]
        samples.append(s)
    ev = {
        "property_id": pid,
        "tier": tier,
        "seed": seed,
        "level": "other",
        "coverage": {
            "explanation": meta.get(
                "explanation",
                "bounded symbolic execution of the real functions; SMT verdict per path; every obligation is "
                "either exhausted (all paths decided by z3, no unknown) or reported inconclusive",
            ),
            "evaluations": max(paths, 1),
            "distinct_nontrivial": max(reached, 2) if reached >= 2 else reached,
            "rule": "evaluations = symbolic execution paths explored (each decided by the SMT solver for all values of "
            "its path condition); distinct_nontrivial = paths that reached the property assertion; samples = the "
            "obligations with their bounds and verdicts",
            "samples": samples,
            "obligations": len(results),
            "discharged": discharged,
            "functions_encoded": meta.get("functions", []),
            "source_sha1": shas,
            "bounds": meta.get("bounds", ""),
            "queries": queries,
            "solver_s": solver_s,
            "stubs": meta.get("stubs", []),
            "outside_claim": meta.get("outside", []),
            "known_findings_hit": [f"{m['id']}@{o}" for m, o in known_hits],
            "exhaustive": False,
        },
        "assumptions": meta.get("assumptions", []),
        "wall_s": round(wall, 2),
        "violations": violations,
    }
    os.makedirs(os.path.join(HERE, "evidence"), exist_ok=True)
    with open(os.path.join(HERE, "evidence", f"{pid}.json"), "w") as fh:
        json.dump(ev, fh, indent=1, default=repr)


if __name__ == "__main__":
    sys.exit(main())
