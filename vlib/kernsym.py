"""E2 - kernsym: symbolic interpretation of the real functions' AST (parsed from the repository's current
source on every run) over z3 integers, byte ropes and token strings.  DESIGN.md section 2.2.

Exploration is by re-execution: a path is a list of branch decisions; at a new symbolic branch both sides are
checked for feasibility with z3 (per-query timeout; `unknown` -> Inconclusive), one is taken and the other is
queued.  A finished path yields (path condition, outcome, side log); the property module turns it into
verification conditions discharged by `prove`.
"""
from __future__ import annotations

import ast
import builtins
import functools
import inspect
import math
import os
import time
import types

import z3

from vlib.ksvalues import (
    AbsList,
    AbsStr,
    EnumVal,
    Obj,
    Rope,
    SBool,
    Seg,
    SInt,
    SRat,
    Tok,
    TokStr,
    Unsupported,
    deep_sym,
    is_sym,
    term,
)

QUERY_TIMEOUT_MS = 60_000
BITOP_WIDTH = 72


class Inconclusive(Exception):
    pass


class PyRaise(Exception):
    """An exception raised by the interpreted program."""

    def __init__(self, exc):
        self.exc = exc


class _Return(Exception):
    def __init__(self, v):
        self.v = v


class _Break(Exception):
    pass


class _Continue(Exception):
    pass


class Stats:
    def __init__(self):
        self.queries = 0
        self.solver_s = 0.0
        self.paths = 0


STATS = Stats()


def _check(assertions, timeout_ms=QUERY_TIMEOUT_MS):
    s = z3.Solver()
    s.set("timeout", timeout_ms)
    for a in assertions:
        s.add(a)
    t0 = time.time()
    r = s.check()
    STATS.queries += 1
    STATS.solver_s += time.time() - t0
    return r, s


class Ctx:
    """One path of the exploration."""

    def __init__(self, decisions, assumptions=()):
        self.decisions = list(decisions)
        self.pos = 0
        self.pc = list(assumptions)
        self.pending = []  # alternative decision prefixes discovered on this path
        self.counter = 0
        self.log = []  # side effects recorded by models (file writes, hash inputs, hex records, ...)

    def fresh_int(self, name):
        self.counter += 1
        return z3.Int(f"{name}!{self.counter}")

    def fresh_bool(self, name):
        self.counter += 1
        return z3.Bool(f"{name}!{self.counter}")

    def assume(self, cond):
        self.pc.append(cond)

    def branch(self, cond) -> bool:
        cond = z3.simplify(cond)
        if z3.is_true(cond):
            return True
        if z3.is_false(cond):
            return False
        if self.pos < len(self.decisions):
            d = self.decisions[self.pos]
            self.pos += 1
            self.pc.append(cond if d else z3.Not(cond))
            return d
        rt, _ = _check(self.pc + [cond])
        rf, _ = _check(self.pc + [z3.Not(cond)])
        if z3.unknown in (rt, rf):
            raise Inconclusive(f"solver answered unknown on a branch feasibility query: {cond}")
        if rt == z3.sat and rf == z3.sat:
            self.pending.append(self.decisions[: self.pos] + [False])
            d = True
        elif rt == z3.sat:
            d = True
        elif rf == z3.sat:
            d = False
        else:
            raise Inconclusive("path condition became unsatisfiable")
        self.decisions.append(d)
        self.pos += 1
        self.pc.append(cond if d else z3.Not(cond))
        return d


class Path:
    def __init__(self, ctx, outcome, value, extra=None):
        self.pc = ctx.pc
        self.log = ctx.log
        self.outcome = outcome  # "ret" | "raise"
        self.value = value  # return value | exception instance
        self.decisions = list(ctx.decisions)
        self.extra = extra

    def exc_name(self):
        return type(self.value).__name__ if self.outcome == "raise" else None


def _snapshot_modules(modules):
    import copy

    snap = []
    for m in modules:
        for k, v in list(vars(m).items()):
            if type(v) in (dict, list, set) and not k.startswith("__"):
                try:
                    snap.append((m, k, v, copy.deepcopy(v)))
                except Exception:
                    pass
    return snap


def _restore_modules(snap):
    import copy

    for m, k, obj, saved in snap:
        # restore in place (other references to the same object must see the pristine content) and rebind
        fresh = copy.deepcopy(saved)
        if isinstance(obj, dict):
            obj.clear()
            obj.update(fresh)
        elif isinstance(obj, list):
            obj[:] = fresh
        else:
            obj.clear()
            obj.update(fresh)
        setattr(m, k, obj)


def explore(run, assumptions=(), max_paths=5000, modules=()):
    """run(ctx) -> value (or raises PyRaise).  Returns list[Path].
    `modules`: repository modules whose module-level containers are restored before every path (the interpreter
    mutates real module state, e.g. a cache dict; paths must not see each other's writes)."""
    work = [[]]
    paths = []
    snap = _snapshot_modules(modules)
    while work:
        dec = work.pop()
        if snap:
            _restore_modules(snap)
        ctx = Ctx(dec, assumptions)
        try:
            v = run(ctx)
            p = Path(ctx, "ret", v)
        except PyRaise as e:
            p = Path(ctx, "raise", e.exc)
        paths.append(p)
        STATS.paths += 1
        work.extend(ctx.pending)
        if len(paths) > max_paths:
            raise Inconclusive("path budget exceeded")
    if snap:
        _restore_modules(snap)
    return paths


def prove(pc, vc, what=""):
    """Discharge one verification condition: pc ∧ ¬vc must be unsat.  Returns (ok, model-or-None)."""
    r, s = _check(list(pc) + [z3.Not(vc)])
    if r == z3.unsat:
        return True, None
    if r == z3.sat:
        return False, s.model()
    raise Inconclusive(f"solver answered unknown on VC {what}")


def small_model(pc, vc, terms, caps=(2**10, 2**16, 2**22)):
    """A counterexample model with small values for `terms` if one exists (replays must stay cheap)."""
    for cap in caps:
        r, s = _check(list(pc) + [z3.Not(vc)] + [t <= cap for t in terms], 20_000)
        if r == z3.sat:
            return s.model()
    return None


def satisfiable(pc, extra=()):
    r, s = _check(list(pc) + list(extra))
    if r == z3.unknown:
        raise Inconclusive("unknown on satisfiability query")
    return r == z3.sat, (s.model() if r == z3.sat else None)


# ------------------------------------------------------------------------------------------------ source access

_AST_CACHE = {}


def _module_ast(filename):
    if filename not in _AST_CACHE:
        with open(filename, encoding="utf-8") as fh:
            src = fh.read()
        _AST_CACHE[filename] = ast.parse(src, filename)
    return _AST_CACHE[filename]


def unwrap(f):
    while True:
        if isinstance(f, (staticmethod, classmethod)):
            f = f.__func__
        elif isinstance(f, types.MethodType) and isinstance(f.__self__, type):
            # bound classmethod (e.g. from super().from_obj): the model is registered for the underlying function
            f = f.__func__
        elif hasattr(f, "__wrapped__"):
            f = f.__wrapped__
        else:
            return f


def func_ast(f):
    """FunctionDef of a real function object, located in the *current* source file."""
    f = unwrap(f)
    code = f.__code__
    tree = _module_ast(code.co_filename)
    best = None
    for node in ast.walk(tree):
        if isinstance(node, (ast.FunctionDef, ast.Lambda)) and getattr(node, "name", "<lambda>") == code.co_name:
            first = min([node.lineno] + [d.lineno for d in getattr(node, "decorator_list", [])])
            if first == code.co_firstlineno or node.lineno == code.co_firstlineno:
                best = node
                break
    if best is None:
        raise Unsupported(f"cannot locate source of {f.__qualname__}")
    return best


def is_repo_function(f, roots):
    f = unwrap(f)
    if not isinstance(f, types.FunctionType):
        return False
    fn = f.__code__.co_filename
    return any(fn.startswith(r) for r in roots)


# ------------------------------------------------------------------------------------------------ interpreter


class Frame:
    def __init__(self, func, locals_, defining_class=None):
        self.func = func
        self.locals = locals_
        self.globals = func.__globals__ if func is not None else {}
        self.defining_class = defining_class
        self.closure = {}
        if func is not None and func.__closure__:
            for name, cell in zip(func.__code__.co_freevars, func.__closure__):
                try:
                    self.closure[name] = cell.cell_contents
                except ValueError:
                    pass


class LocalFunction:
    """A def nested in an interpreted function (or a method of an interpreted object)."""

    def __init__(self, node, frame):
        self.node = node
        self.frame = frame


class BoundMethod:
    def __init__(self, func, self_obj, defining_class):
        self.func = func
        self.self_obj = self_obj
        self.defining_class = defining_class


class Interp:
    def __init__(self, ctx, roots, models=None, interpret_classes=(), force_interpret=False):
        self.ctx = ctx
        self.roots = [os.path.abspath(r) + os.sep for r in roots]
        self.models = models or {}  # id(real callable) or qualname -> model(interp, args, kwargs)
        self.interpret_classes = set(interpret_classes)
        self.force = force_interpret
        self.depth = 0
        self.encoded = set()
        self.memo = {}

    # ---------------------------------------------------------------- helpers
    def truthy(self, v) -> bool:
        if isinstance(v, SBool):
            return self.ctx.branch(v.t)
        if isinstance(v, SInt):
            return self.ctx.branch(v.t != 0)
        if isinstance(v, Rope):
            n = v.length()
            return n > 0 if isinstance(n, int) else self.ctx.branch(n > 0)
        if isinstance(v, TokStr):
            if v.ndigits():
                return True
            return bool(v.concrete())
        if isinstance(v, AbsStr):
            return self.ctx.branch(v.clen > 0)
        if isinstance(v, (EnumVal, SRat, AbsList)):
            raise Unsupported("truthiness of " + type(v).__name__)
        if isinstance(v, Obj):
            return True
        return bool(v)

    def raise_(self, exc):
        raise PyRaise(exc)

    def model_for(self, f):
        if isinstance(f, types.MethodType) and not isinstance(f.__self__, type):
            # bound method of a real object: a model registered for the underlying function receives self first
            try:
                m = self.models.get(unwrap(f.__func__))
            except TypeError:
                m = None
            if m is not None:
                owner = f.__self__
                return lambda it, args, kwargs, m=m, owner=owner: m(it, [owner] + list(args), kwargs)
        key = unwrap(f) if not isinstance(f, (types.BuiltinFunctionType, type)) else f
        try:
            m = self.models.get(key)
        except TypeError:
            m = None
        if m is None:
            qn = getattr(key, "__module__", "") or ""
            qn = qn + "." + getattr(key, "__qualname__", getattr(key, "__name__", ""))
            m = self.models.get(qn)
        return m

    # ---------------------------------------------------------------- calling
    def call(self, f, args, kwargs=None):
        kwargs = kwargs or {}
        self.depth += 1
        if self.depth > 60:
            raise Unsupported("interpretation depth")
        try:
            return self._call(f, args, kwargs)
        finally:
            self.depth -= 1

    def _call(self, f, args, kwargs):
        if isinstance(f, functools._lru_cache_wrapper):
            # honour memoisation (per explored path): the decorated function is interpreted once per distinct concrete
            # argument tuple; a stale entry is exactly what a history obligation must be able to see
            if not any(deep_sym(a) for a in args) and not kwargs:
                try:
                    key = (id(f), tuple(args))
                    hash(key)
                except TypeError:
                    key = None
                if key is not None:
                    if key in self.memo:
                        return self.memo[key]
                    r = self._call(f.__wrapped__, args, kwargs)
                    self.memo[key] = r
                    return r
            return self._call(f.__wrapped__, args, kwargs)
        if isinstance(f, LocalFunction):
            return self.run_function(f.node, None, args, kwargs, parent=f.frame)
        if isinstance(f, BoundMethod):
            return self.call_function(f.func, [f.self_obj] + list(args), kwargs, f.defining_class)
        m = None
        try:
            m = self.model_for(f)
        except Exception:
            m = None
        if m is not None:
            return m(self, list(args), dict(kwargs))
        symbolic = any(deep_sym(a) for a in args) or any(deep_sym(v) for v in kwargs.values())
        owner = getattr(f, "__self__", None)
        if symbolic and isinstance(owner, str) and getattr(f, "__name__", "") == "join" and len(args) == 1:
            out = TokStr()
            for i, part in enumerate(list(args[0])):
                if i:
                    out = out.concat(owner)
                out = out.concat(part)
            c = out.concrete()
            return c if c is not None else out
        if symbolic and type(owner) is dict and args and isinstance(args[0], AbsStr) and getattr(f, "__name__", "") in ("get", "setdefault", "pop"):
            kk = self.dict_find(owner, args[0])
            nm = f.__name__
            if nm == "get":
                return owner[kk] if kk is not None else (args[1] if len(args) > 1 else None)
            if nm == "setdefault":
                if kk is None:
                    owner[args[0]] = args[1] if len(args) > 1 else None
                    return owner[args[0]]
                return owner[kk]
            if kk is None:
                if len(args) > 1:
                    return args[1]
                self.raise_(KeyError(args[0].name))
            return owner.pop(kk)
        if symbolic and owner is not None and not isinstance(owner, type):
            # storing symbolic values into model recorders / plain containers is just bookkeeping
            if isinstance(owner, _Recorder) or (type(owner) in (list, dict, set) and getattr(f, "__name__", "") in _CONTAINER_STORE):
                return f(*args, **kwargs)
        # bound methods of real objects
        if isinstance(f, types.MethodType):
            target = unwrap(f.__func__)
            if is_repo_function(target, self.roots) and (symbolic or self.force):
                dc = _defining_class(f.__self__ if isinstance(f.__self__, type) else type(f.__self__), target)
                return self.call_function(target, [f.__self__] + list(args), kwargs, dc)
        if isinstance(f, type) and f.__name__ in self.interpret_classes:
            return self.instantiate(f, args, kwargs)
        target = unwrap(f) if not isinstance(f, type) else f
        if isinstance(target, types.FunctionType) and is_repo_function(target, self.roots) and (symbolic or self.force):
            return self.call_function(target, list(args), kwargs, None)
        if symbolic:
            raise Unsupported(f"call of {getattr(f, '__qualname__', f)!r} with symbolic arguments has no model")
        try:
            return f(*args, **kwargs)
        except PyRaise:
            raise
        except Exception as e:  # real exception from real code
            raise PyRaise(e)

    def instantiate(self, cls, args, kwargs):
        o = Obj(cls)
        init = cls.__init__
        if isinstance(unwrap(init), types.FunctionType):
            self.call_function(unwrap(init), [o] + list(args), kwargs, _defining_class(cls, unwrap(init)))
        return o

    def call_function(self, func, args, kwargs, defining_class):
        func = unwrap(func)
        node = func_ast(func)
        self.encoded.add(f"{func.__module__}.{func.__qualname__}")
        return self.run_function(node, func, args, kwargs, defining_class=defining_class)

    def run_function(self, node, func, args, kwargs, defining_class=None, parent=None):
        a = node.args
        params = [p.arg for p in a.posonlyargs + a.args]
        loc = {}
        args = list(args)
        if len(args) > len(params) and not a.vararg:
            self.raise_(TypeError(f"{node.name}() takes {len(params)} positional arguments but {len(args)} were given"))
        for name, v in zip(params, args):
            loc[name] = v
        if a.vararg:
            loc[a.vararg.arg] = tuple(args[len(params) :])
        defaults = a.defaults
        frame = Frame(func, loc, defining_class) if parent is None else Frame(None, loc, parent.defining_class)
        if parent is not None:
            frame.globals = parent.globals
            frame.closure = dict(parent.closure)
            frame.closure.update(parent.locals)
            frame.parent = parent
        for i, p in enumerate(params):
            if p in loc:
                continue
            if p in kwargs:
                loc[p] = kwargs.pop(p)
                continue
            di = i - (len(params) - len(defaults))
            if di >= 0:
                loc[p] = self.eval(defaults[di], frame)
            else:
                self.raise_(TypeError(f"{node.name}() missing required argument '{p}'"))
        for p, d in zip(a.kwonlyargs, a.kw_defaults):
            if p.arg in kwargs:
                loc[p.arg] = kwargs.pop(p.arg)
            elif d is not None:
                loc[p.arg] = self.eval(d, frame)
            else:
                self.raise_(TypeError(f"missing keyword-only argument {p.arg}"))
        if a.kwarg:
            loc[a.kwarg.arg] = dict(kwargs)
        elif kwargs:
            self.raise_(TypeError(f"{node.name}() got unexpected keyword arguments {list(kwargs)}"))
        if isinstance(node, ast.Lambda):
            return self.eval(node.body, frame)
        try:
            self.exec_block(node.body, frame)
        except _Return as r:
            return r.v
        return None

    # ---------------------------------------------------------------- statements
    def exec_block(self, stmts, fr):
        for s in stmts:
            self.exec(s, fr)

    def exec(self, s, fr):
        m = getattr(self, "x_" + type(s).__name__, None)
        if m is None:
            raise Unsupported(f"statement {type(s).__name__} at line {s.lineno}")
        return m(s, fr)

    def x_Expr(self, s, fr):
        self.eval(s.value, fr)

    def x_Pass(self, s, fr):
        pass

    def x_Return(self, s, fr):
        raise _Return(self.eval(s.value, fr) if s.value is not None else None)

    def x_Break(self, s, fr):
        raise _Break()

    def x_Continue(self, s, fr):
        raise _Continue()

    def x_Assign(self, s, fr):
        v = self.eval(s.value, fr)
        for t in s.targets:
            self.assign(t, v, fr)

    def x_AnnAssign(self, s, fr):
        if s.value is not None:
            self.assign(s.target, self.eval(s.value, fr), fr)

    def x_AugAssign(self, s, fr):
        load = _as_load(s.target)
        cur = self.eval(load, fr)
        v = self.binop(type(s.op), cur, self.eval(s.value, fr))
        self.assign(s.target, v, fr)

    def assign(self, t, v, fr):
        if isinstance(t, ast.Name):
            fr.locals[t.id] = v
        elif isinstance(t, ast.Attribute):
            o = self.eval(t.value, fr)
            if isinstance(o, Obj):
                o._attrs[t.attr] = v
            else:
                if deep_sym(v) and not isinstance(o, _Recorder):
                    raise Unsupported(f"symbolic attribute store on real object {type(o).__name__}.{t.attr}")
                setattr(o, t.attr, v)
        elif isinstance(t, ast.Subscript):
            o = self.eval(t.value, fr)
            k = self.eval(t.slice, fr)
            if isinstance(k, AbsStr) and type(o) is dict:
                kk = self.dict_find(o, k)
                o[kk if kk is not None else k] = v
                return
            if is_sym(k):
                raise Unsupported("symbolic subscript store")
            try:
                o[k] = v
            except Exception as e:  # noqa
                raise PyRaise(e)
        elif isinstance(t, (ast.Tuple, ast.List)):
            if is_sym(v):
                raise Unsupported("unpacking a symbolic value")
            vs = list(v)
            if len(vs) != len(t.elts):
                self.raise_(ValueError(f"not enough/too many values to unpack (expected {len(t.elts)}, got {len(vs)})"))
            for tt, vv in zip(t.elts, vs):
                self.assign(tt, vv, fr)
        else:
            raise Unsupported(f"assignment target {type(t).__name__}")

    def x_If(self, s, fr):
        if self.truthy(self.eval(s.test, fr)):
            self.exec_block(s.body, fr)
        else:
            self.exec_block(s.orelse, fr)

    def x_For(self, s, fr):
        it = self.eval(s.iter, fr)
        if is_sym(it):
            raise Unsupported("for over a symbolic iterable")
        broke = False
        for v in list(it):
            self.assign(s.target, v, fr)
            try:
                self.exec_block(s.body, fr)
            except _Continue:
                continue
            except _Break:
                broke = True
                break
        if not broke:
            self.exec_block(s.orelse, fr)

    def x_While(self, s, fr):
        n = 0
        while self.truthy(self.eval(s.test, fr)):
            n += 1
            if n > 64:
                raise Inconclusive("while loop unwinding bound (64) reached")
            try:
                self.exec_block(s.body, fr)
            except _Continue:
                continue
            except _Break:
                return
        self.exec_block(s.orelse, fr)

    def x_Raise(self, s, fr):
        if s.exc is None:
            cur = getattr(fr, "current_exc", None)
            if cur is None:
                self.raise_(RuntimeError("No active exception to reraise"))
            raise PyRaise(cur)
        e = self.eval(s.exc, fr)
        if isinstance(e, type):
            e = e()
        raise PyRaise(e)

    def x_Try(self, s, fr):
        try:
            try:
                self.exec_block(s.body, fr)
            except PyRaise as pr:
                for h in s.handlers:
                    if h.type is None:
                        match = True
                    else:
                        ty = self.eval(h.type, fr)
                        match = isinstance(pr.exc, ty)
                    if match:
                        if h.name:
                            fr.locals[h.name] = pr.exc
                        prev = getattr(fr, "current_exc", None)
                        fr.current_exc = pr.exc
                        try:
                            self.exec_block(h.body, fr)
                        finally:
                            fr.current_exc = prev
                        break
                else:
                    raise
            else:
                self.exec_block(s.orelse, fr)
        finally:
            if s.finalbody:
                self.exec_block(s.finalbody, fr)

    def x_With(self, s, fr):
        mgrs = []
        for item in s.items:
            m = self.eval(item.context_expr, fr)
            v = m.__enter__()
            mgrs.append(m)
            if item.optional_vars is not None:
                self.assign(item.optional_vars, v, fr)
        try:
            self.exec_block(s.body, fr)
        except PyRaise as pr:
            for m in reversed(mgrs):
                m.__exit__(type(pr.exc), pr.exc, None)
            raise
        except (_Return, _Break, _Continue):
            for m in reversed(mgrs):
                m.__exit__(None, None, None)
            raise
        else:
            for m in reversed(mgrs):
                m.__exit__(None, None, None)

    def x_Assert(self, s, fr):
        if not self.truthy(self.eval(s.test, fr)):
            self.raise_(AssertionError())

    def x_FunctionDef(self, s, fr):
        fr.locals[s.name] = LocalFunction(s, fr)

    def x_ClassDef(self, s, fr):
        # nested class definitions have no symbolic inputs: executed by real Python
        ns = dict(fr.globals)
        ns.update({k: v for k, v in fr.closure.items() if not deep_sym(v)})
        ns.update({k: v for k, v in fr.locals.items() if not deep_sym(v)})
        mod = ast.Module(body=[s], type_ignores=[])
        ast.fix_missing_locations(mod)
        exec(compile(mod, "<kernsym-classdef>", "exec"), ns)
        fr.locals[s.name] = ns[s.name]

    def x_Import(self, s, fr):
        ns = {}
        mod = ast.Module(body=[s], type_ignores=[])
        exec(compile(mod, "<kernsym-import>", "exec"), dict(fr.globals), ns)
        fr.locals.update(ns)

    x_ImportFrom = x_Import

    # ---------------------------------------------------------------- expressions
    def eval(self, e, fr):
        m = getattr(self, "e_" + type(e).__name__, None)
        if m is None:
            raise Unsupported(f"expression {type(e).__name__} at line {getattr(e, 'lineno', '?')}")
        return m(e, fr)

    def e_Constant(self, e, fr):
        return e.value

    def e_Name(self, e, fr):
        n = e.id
        if n in fr.locals:
            return fr.locals[n]
        if n in fr.closure:
            return fr.closure[n]
        if n in fr.globals:
            return fr.globals[n]
        if hasattr(builtins, n):
            return getattr(builtins, n)
        self.raise_(NameError(f"name '{n}' is not defined"))

    def e_Tuple(self, e, fr):
        return tuple(self._elts(e.elts, fr))

    def e_List(self, e, fr):
        return list(self._elts(e.elts, fr))

    def _elts(self, elts, fr):
        out = []
        for x in elts:
            if isinstance(x, ast.Starred):
                out.extend(list(self.eval(x.value, fr)))
            else:
                out.append(self.eval(x, fr))
        return out

    def e_Dict(self, e, fr):
        d = {}
        for k, v in zip(e.keys, e.values):
            if k is None:
                d.update(self.eval(v, fr))
            else:
                kk = self.eval(k, fr)
                if is_sym(kk):
                    raise Unsupported("symbolic dict key")
                d[kk] = self.eval(v, fr)
        return d

    def e_IfExp(self, e, fr):
        return self.eval(e.body, fr) if self.truthy(self.eval(e.test, fr)) else self.eval(e.orelse, fr)

    def e_BoolOp(self, e, fr):
        v = None
        for i, x in enumerate(e.values):
            v = self.eval(x, fr)
            last = i == len(e.values) - 1
            if last:
                return v
            t = self.truthy(v)
            if isinstance(e.op, ast.And) and not t:
                return v if not is_sym(v) else False
            if isinstance(e.op, ast.Or) and t:
                return v if not is_sym(v) else True
        return v

    def e_UnaryOp(self, e, fr):
        v = self.eval(e.operand, fr)
        if isinstance(e.op, ast.Not):
            if isinstance(v, SBool):
                return SBool(z3.Not(v.t))
            return not self.truthy(v)
        if isinstance(e.op, ast.USub):
            if isinstance(v, SInt):
                return SInt(-v.t)
            return -v
        if isinstance(e.op, ast.UAdd):
            return v
        if isinstance(e.op, ast.Invert):
            if isinstance(v, SInt):
                return SInt(-v.t - 1)
            return ~v
        raise Unsupported("unary " + type(e.op).__name__)

    def e_BinOp(self, e, fr):
        return self.binop(type(e.op), self.eval(e.left, fr), self.eval(e.right, fr))

    def e_NamedExpr(self, e, fr):
        v = self.eval(e.value, fr)
        self.assign(e.target, v, fr)
        return v

    def e_Lambda(self, e, fr):
        return LocalFunction(e, fr)

    def e_ListComp(self, e, fr):
        return self._comp(e, fr, 0, lambda f2: self.eval(e.elt, f2))

    def e_GeneratorExp(self, e, fr):
        return self._comp(e, fr, 0, lambda f2: self.eval(e.elt, f2))

    def _comp(self, e, fr, gi, emit):
        out = []
        sub = Frame(None, dict(fr.locals), fr.defining_class)
        sub.globals = fr.globals
        sub.closure = fr.closure

        def rec(i):
            if i == len(e.generators):
                out.append(emit(sub))
                return
            g = e.generators[i]
            it = self.eval(g.iter, sub)
            if is_sym(it):
                raise Unsupported("comprehension over symbolic iterable")
            for v in list(it):
                self.assign(g.target, v, sub)
                if all(self.truthy(self.eval(c, sub)) for c in g.ifs):
                    rec(i + 1)

        rec(0)
        return out

    def e_JoinedStr(self, e, fr):
        parts = []
        sym = False
        for v in e.values:
            if isinstance(v, ast.Constant):
                parts.append(Tok("lit", v.value))
            else:
                x = self.eval(v.value, fr)
                if isinstance(x, SInt) and v.format_spec is None and v.conversion == -1:
                    # decimal rendering of an int: only exact for non-negative values
                    if not self.ctx.branch(x.t >= 0):
                        raise Unsupported("rendering a negative symbolic int")
                    parts.append(Tok("digits", x.t))
                    sym = True
                elif isinstance(x, TokStr) and v.format_spec is None:
                    parts.extend(x.toks)
                    sym = sym or x.ndigits() > 0
                elif deep_sym(x):
                    parts.append(Tok("lit", "<sym>"))
                    self.ctx.log.append(("format_marker",))
                else:
                    spec = self.eval(v.format_spec, fr) if v.format_spec is not None else ""
                    if v.conversion == ord("r"):
                        x = repr(x)
                    elif v.conversion == ord("s"):
                        x = str(x)
                    parts.append(Tok("lit", format(x, spec)))
        ts = TokStr(parts)
        c = ts.concrete()
        return c if c is not None else ts

    def e_Attribute(self, e, fr):
        o = self.eval(e.value, fr)
        return self.getattr(o, e.attr, fr)

    def getattr(self, o, name, fr=None):
        if isinstance(o, Obj):
            if name in o._attrs:
                return o._attrs[name]
            if name == "__class__":
                return o._cls
            try:
                raw = inspect.getattr_static(o._cls, name)
            except AttributeError:
                self.raise_(AttributeError(f"'{o._cls.__name__}' object has no attribute '{name}'"))
            if isinstance(raw, staticmethod):
                return raw.__func__
            if isinstance(raw, classmethod):
                return types.MethodType(raw.__func__, o._cls)
            if isinstance(unwrap(raw), types.FunctionType):
                return BoundMethod(unwrap(raw), o, _defining_class(o._cls, unwrap(raw)))
            if isinstance(raw, property):
                return self.call_function(raw.fget, [o], {}, _defining_class(o._cls, raw.fget))
            return raw
        if is_sym(o):
            return SymMethod(o, name)
        try:
            return getattr(o, name)
        except AttributeError as ex:
            raise PyRaise(ex)

    def dict_find(self, d, k):
        """Key object of dict `d` equal to the abstract string `k` (decided by the solver per candidate), or None."""
        for kk in list(d.keys()):
            if kk is k:
                return kk
            if isinstance(kk, AbsStr):
                if self.ctx.branch(kk.ident == k.ident):
                    return kk
        return None

    def e_Subscript(self, e, fr):
        o = self.eval(e.value, fr)
        if isinstance(e.slice, ast.Slice):
            lo = self.eval(e.slice.lower, fr) if e.slice.lower is not None else None
            hi = self.eval(e.slice.upper, fr) if e.slice.upper is not None else None
            st = self.eval(e.slice.step, fr) if e.slice.step is not None else None
            if isinstance(o, Rope):
                return rope_slice(self, o, lo, hi, st)
            if is_sym(o) or is_sym(lo) or is_sym(hi):
                raise Unsupported("symbolic slice")
            return o[lo:hi:st]
        k = self.eval(e.slice, fr)
        if isinstance(k, AbsStr) and type(o) is dict:
            kk = self.dict_find(o, k)
            if kk is None:
                self.raise_(KeyError(k.name))
            return o[kk]
        if is_sym(o) or is_sym(k):
            raise Unsupported("symbolic subscript")
        try:
            return o[k]
        except Exception as ex:  # noqa
            raise PyRaise(ex)

    def e_Call(self, e, fr):
        # zero-argument super()
        if isinstance(e.func, ast.Name) and e.func.id == "super" and not e.args:
            first = next(iter(fr.locals.values()))
            dc = fr.defining_class
            if dc is None:
                raise Unsupported("super() without a defining class")
            if isinstance(first, Obj):
                return SuperProxy(dc, first, self)
            return super(dc, first)
        f = self.eval(e.func, fr)
        args = self._elts(e.args, fr)
        kwargs = {}
        for kw in e.keywords:
            if kw.arg is None:
                kwargs.update(self.eval(kw.value, fr))
            else:
                kwargs[kw.arg] = self.eval(kw.value, fr)
        if isinstance(f, SymMethod):
            return f.call(self, args, kwargs)
        return self.call(f, args, kwargs)

    def e_Compare(self, e, fr):
        left = self.eval(e.left, fr)
        result = None
        for op, rnode in zip(e.ops, e.comparators):
            right = self.eval(rnode, fr)
            r = self.compare(type(op), left, right)
            if len(e.ops) == 1:
                return r
            if not self.truthy(r):
                return False
            result = True
            left = right
        return result

    # ---------------------------------------------------------------- operators
    def binop(self, op, a, b):
        if not is_sym(a) and not is_sym(b):
            try:
                return _CONCRETE_BINOPS[op](a, b)
            except KeyError:
                raise Unsupported("operator " + op.__name__)
            except Exception as ex:  # noqa
                raise PyRaise(ex)
        if isinstance(a, (Rope,)) or isinstance(b, (Rope,)):
            if op is ast.Add and isinstance(a, (Rope, bytes)) and isinstance(b, (Rope, bytes)):
                return Rope.of(a).concat(b)
            if op is ast.Mult:
                r, n = (a, b) if isinstance(a, (Rope, bytes)) else (b, a)
                return rope_repeat(self, Rope.of(r), n)
            raise Unsupported("rope operator " + op.__name__)
        if isinstance(a, (TokStr, AbsStr)) or isinstance(b, (TokStr, AbsStr)):
            if op is ast.Add and isinstance(a, (TokStr, str)) and isinstance(b, (TokStr, str)):
                return TokStr.of(a).concat(b)
            raise Unsupported("string operator " + op.__name__)
        if isinstance(a, bytes) and isinstance(b, SInt) and op is ast.Mult:
            return rope_repeat(self, Rope.of(a), b)
        if isinstance(a, SInt) and isinstance(b, bytes) and op is ast.Mult:
            return rope_repeat(self, Rope.of(b), a)
        if isinstance(a, (SInt, int)) and isinstance(b, (SInt, int)) and not isinstance(a, bool) or isinstance(a, SInt) or isinstance(b, SInt):
            ta, tb = term(a), term(b)
            if op is ast.Add:
                return SInt(ta + tb)
            if op is ast.Sub:
                return SInt(ta - tb)
            if op is ast.Mult:
                return SInt(ta * tb)
            if op is ast.Div:
                if self.ctx.branch(tb == 0):
                    self.raise_(ZeroDivisionError("division by zero"))
                return SRat(ta, tb)
            if op in (ast.FloorDiv, ast.Mod):
                if self.ctx.branch(tb == 0):
                    self.raise_(ZeroDivisionError("integer division or modulo by zero"))
                if isinstance(b, int) and b > 0:
                    return SInt(ta / tb) if op is ast.FloorDiv else SInt(ta % tb)
                # python floor semantics for symbolic divisors: require positive divisor
                if not self.ctx.branch(tb > 0):
                    raise Unsupported("floor division by a possibly negative symbolic divisor")
                return SInt(ta / tb) if op is ast.FloorDiv else SInt(ta % tb)
            if op is ast.LShift and isinstance(b, int) and b >= 0:
                return SInt(ta * (1 << b))
            if op is ast.RShift and isinstance(b, int) and b >= 0:
                return SInt(ta / (1 << b))
            if op is ast.BitAnd and isinstance(b, int) and b >= 0 and (b & (b + 1)) == 0:
                return SInt(ta % (b + 1))
            if op is ast.BitAnd and (isinstance(a, int) or isinstance(b, int)):
                # symbolic & constant, exact in integer arithmetic for a non-negative symbolic operand:
                #   x & k  = sum of 2^i * ((x div 2^i) mod 2) over the set bits of k          (k >= 0)
                #   x & ~k = x - (x & k)                                                       (mask = ~k < 0)
                k, x = (a, tb) if isinstance(a, int) else (b, ta)
                if not self.ctx.branch(x >= 0):
                    raise Unsupported("bit-and of a negative symbolic int")
                kk = k if k >= 0 else ~k
                if kk.bit_length() <= 40:
                    low = z3.IntVal(0)
                    for i in range(kk.bit_length()):
                        if (kk >> i) & 1:
                            low = low + (2**i) * ((x / (2**i)) % 2)
                    return SInt(z3.simplify(low if k >= 0 else x - low))
            if op in (ast.BitAnd, ast.BitOr, ast.BitXor):
                # two's complement on BITOP_WIDTH bits (exact while both operands fit; checked on the path)
                W = BITOP_WIDTH
                lim = 2 ** (W - 1)
                if not self.ctx.branch(z3.And(ta >= -lim, ta < lim, tb >= -lim, tb < lim)):
                    raise Unsupported("bit operation operand beyond the modelled width")
                x, y = z3.Int2BV(ta, W), z3.Int2BV(tb, W)
                r = {ast.BitAnd: x & y, ast.BitOr: x | y, ast.BitXor: x ^ y}[op]
                return SInt(z3.BV2Int(r, is_signed=True))
            raise Unsupported("integer operator " + op.__name__)
        raise Unsupported(f"operator {op.__name__} on {type(a).__name__}, {type(b).__name__}")

    def compare(self, op, a, b):
        if op in (ast.Is, ast.IsNot):
            if isinstance(a, EnumVal) and not is_sym(b):
                t = a.is_const(b)
                return SBool(t if op is ast.Is else z3.Not(t))
            if isinstance(b, EnumVal) and not is_sym(a):
                t = b.is_const(a)
                return SBool(t if op is ast.Is else z3.Not(t))
            if is_sym(a) or is_sym(b):
                # symbolic values are never None/True/False singletons
                same = a is b
                return same if op is ast.Is else not same
            return (a is b) if op is ast.Is else (a is not b)
        if op in (ast.In, ast.NotIn):
            r = self.contains(b, a)
            if op is ast.NotIn:
                return SBool(z3.Not(r.t)) if isinstance(r, SBool) else not r
            return r
        if not is_sym(a) and not is_sym(b):
            try:
                return _CONCRETE_CMPS[op](a, b)
            except Exception as ex:  # noqa
                raise PyRaise(ex)
        if isinstance(a, EnumVal) or isinstance(b, EnumVal):
            ev, c = (a, b) if isinstance(a, EnumVal) else (b, a)
            if is_sym(c):
                raise Unsupported("comparison between symbolic enum values")
            if op is ast.Eq:
                return SBool(ev.eq_const(c))
            if op is ast.NotEq:
                return SBool(z3.Not(ev.eq_const(c)))
            raise Unsupported("ordering on enum value")
        if isinstance(a, AbsStr) or isinstance(b, AbsStr):
            if isinstance(a, AbsStr) and isinstance(b, AbsStr) and op in (ast.Eq, ast.NotEq):
                t = a.ident == b.ident
                return SBool(t if op is ast.Eq else z3.Not(t))
            if op in (ast.Eq, ast.NotEq):
                other = b if isinstance(a, AbsStr) else a
                me = a if isinstance(a, AbsStr) else b
                if other == "":
                    t = me.clen == 0
                    return SBool(t if op is ast.Eq else z3.Not(t))
            raise Unsupported("comparison on abstract string")
        if isinstance(a, (TokStr,)) or isinstance(b, (TokStr,)):
            if op in (ast.Eq, ast.NotEq):
                r = tokstr_eq(TokStr.of(a) if isinstance(a, (TokStr, str)) else None, TokStr.of(b) if isinstance(b, (TokStr, str)) else None)
                if r is None:
                    raise Unsupported("token string equality")
                return r if op is ast.Eq else (not r)
            raise Unsupported("ordering on token strings")
        if isinstance(a, Rope) or isinstance(b, Rope):
            raise Unsupported("comparison on ropes")
        ta, tb = term(a), term(b)
        t = {
            ast.Eq: lambda: ta == tb,
            ast.NotEq: lambda: ta != tb,
            ast.Lt: lambda: ta < tb,
            ast.LtE: lambda: ta <= tb,
            ast.Gt: lambda: ta > tb,
            ast.GtE: lambda: ta >= tb,
        }[op]()
        return SBool(t)

    def contains(self, container, x):
        if isinstance(container, AbsList):
            if not isinstance(x, AbsStr):
                raise Unsupported("membership of a non-abstract value in an abstract list")
            return SBool(container.member(x))
        if isinstance(container, TokStr) or isinstance(x, TokStr):
            if isinstance(x, str) and isinstance(container, TokStr):
                # substring test against literal parts; digit tokens contain only [0-9]
                if any(ch.isdigit() for ch in x):
                    raise Unsupported("digit substring test on token string")
                return any(x in t.v for t in container.toks if t.kind == "lit")
            raise Unsupported("membership on token strings")
        if is_sym(container):
            raise Unsupported("membership in symbolic container")
        if is_sym(x):
            if isinstance(container, (list, tuple)):
                # disjunction of equalities
                res = False
                for c in container:
                    r = self.compare(ast.Eq, x, c)
                    if isinstance(r, SBool):
                        if self.ctx.branch(r.t):
                            return True
                    elif r:
                        return True
                return res
            if type(container) is dict and isinstance(x, AbsStr):
                return self.dict_find(container, x) is not None
            if isinstance(container, dict) or hasattr(container, "keys"):
                if isinstance(x, TokStr) and x.concrete() is not None:
                    return x.concrete() in container
                return False if isinstance(x, (Rope, AbsStr)) else self.contains(list(container.keys()), x)
            raise Unsupported("membership of symbolic value")
        try:
            return x in container
        except Exception as ex:  # noqa
            raise PyRaise(ex)


import operator as _op

_CONCRETE_BINOPS = {
    ast.Add: _op.add,
    ast.Sub: _op.sub,
    ast.Mult: _op.mul,
    ast.Div: _op.truediv,
    ast.FloorDiv: _op.floordiv,
    ast.Mod: _op.mod,
    ast.LShift: _op.lshift,
    ast.RShift: _op.rshift,
    ast.BitAnd: _op.and_,
    ast.BitOr: _op.or_,
    ast.BitXor: _op.xor,
    ast.Pow: _op.pow,
}
_CONCRETE_CMPS = {
    ast.Eq: _op.eq,
    ast.NotEq: _op.ne,
    ast.Lt: _op.lt,
    ast.LtE: _op.le,
    ast.Gt: _op.gt,
    ast.GtE: _op.ge,
}


def _as_load(t):
    import copy

    n = copy.copy(t)
    n.ctx = ast.Load()
    return n


def _defining_class(cls, func):
    for k in cls.__mro__:
        for v in k.__dict__.values():
            if unwrap(v) is func:
                return k
    return cls


class _Recorder:
    """Marker base for model objects that accept symbolic attribute stores."""


_CONTAINER_STORE = {"append", "extend", "insert", "update", "setdefault", "add", "pop", "get", "remove", "clear"}


class SuperProxy:
    def __init__(self, dc, obj, interp):
        self.dc, self.obj, self.interp = dc, obj, interp

    def __getattr__(self, name):
        mro = self.obj._cls.__mro__
        i = mro.index(self.dc)
        for k in mro[i + 1 :]:
            if name in k.__dict__:
                raw = k.__dict__[name]
                if isinstance(unwrap(raw), types.FunctionType) and not isinstance(raw, staticmethod):
                    return BoundMethod(unwrap(raw), self.obj, k)
                return raw
        raise AttributeError(name)


# ------------------------------------------------------------------------------------------------ symbolic methods


class SymMethod:
    """obj.method for a symbolic obj; dispatches to the model functions below."""

    def __init__(self, o, name):
        self.o, self.name = o, name

    def call(self, it, args, kwargs):
        fn = _SYM_METHODS.get((type(self.o), self.name))
        if fn is None:
            pytypes = {Rope: (bytes, str), TokStr: (str,), AbsStr: (str,), SInt: (int,), SBool: (bool,)}.get(type(self.o), ())
            if pytypes and not any(hasattr(t, self.name) for t in pytypes):
                raise PyRaise(AttributeError(f"'{pytypes[0].__name__}' object has no attribute '{self.name}'"))
            raise Unsupported(f"method {type(self.o).__name__}.{self.name}")
        return fn(it, self.o, *args, **kwargs)


MAX_SYM_BYTES = 80


def m_int_to_bytes(it, x, length=1, byteorder="big", signed=False):
    if is_sym(byteorder) or signed:
        raise Unsupported("to_bytes with symbolic order or signed")
    if isinstance(length, SInt):
        # symbolic width (bounded): overflow iff x >= 256**length, decided per width value
        L = length.t
        if it.ctx.branch(z3.Or(L < 0, L > MAX_SYM_BYTES)):
            raise Unsupported("to_bytes width outside 0..%d" % MAX_SYM_BYTES)
        over = z3.Or(x.t < 0, *[z3.And(L == i, x.t >= 256**i) for i in range(MAX_SYM_BYTES + 1)])
        if it.ctx.branch(over):
            it.raise_(OverflowError("int too big to convert"))
        return Rope([Seg("int", x.t, z3.simplify(L), byteorder)])
    if it.ctx.branch(z3.Or(x.t < 0, x.t >= 256**length)):
        it.raise_(OverflowError("int too big to convert"))
    return Rope([Seg("int", x.t, length, byteorder)])


def m_int_bit_length(it, x):
    """bit_length of a non-negative symbolic int below 2**(8*MAX_SYM_BYTES): fresh k tied to x by a case split."""
    if not it.ctx.branch(x.t >= 0):
        raise Unsupported("bit_length of a negative symbolic int")
    k = it.ctx.fresh_int("bitlen")
    nb = 8 * MAX_SYM_BYTES
    cases = [z3.And(k == 0, x.t == 0)] + [z3.And(k == i, x.t >= 2 ** (i - 1), x.t < 2**i) for i in range(1, nb + 1)]
    if it.ctx.branch(x.t >= 2**nb):
        raise Unsupported("bit_length beyond the modelled width")
    it.ctx.assume(z3.Or(*cases))
    return SInt(k)


def m_rope_ljust(it, r, width, fill=b" "):
    f = Rope.of(fill).concrete()
    if f is None or len(f) != 1:
        raise Unsupported("ljust fill")
    n = r.length()
    w = term(width)
    cond = w <= term(n)
    if it.ctx.branch(cond):
        return r
    return r.concat(Rope([Seg("fill", f[0], z3.simplify(w - term(n)))]))


def m_rope_lstrip(it, r, chars=None):
    """bytes.lstrip(chars): removes leading bytes contained in `chars` (bounded: constant prefix + up to 4 symbolic bytes)."""
    if chars is None or is_sym(chars):
        raise Unsupported("lstrip without concrete byte set")
    segs = list(r.segs)
    budget = 4
    while segs:
        sg = segs[0]
        if sg.kind == "const":
            stripped = sg.a.lstrip(chars)
            if stripped:
                segs[0] = Seg("const", stripped)
                return Rope(segs)
            segs.pop(0)
            continue
        if sg.kind == "fill":
            if sg.a in chars:
                segs.pop(0)
                continue
            return Rope(segs)
        if sg.kind == "int" and sg.c == "big" and isinstance(sg.b, int):
            if sg.b == 0:
                segs.pop(0)
                continue
            top = sg.a / (256 ** (sg.b - 1))
            if budget == 0:
                # bound of the model: at most 4 stripped bytes per integer field; deeper repetition is assumed away
                it.ctx.assume(z3.Not(z3.Or(*[top == c for c in chars])))
                return Rope(segs)
            if it.ctx.branch(z3.Or(*[top == c for c in chars])):
                budget -= 1
                if budget < 0:
                    raise Inconclusive("lstrip unwinding bound (more than 4 leading stripped bytes of one integer field)")
                segs[0] = Seg("int", sg.a % (256 ** (sg.b - 1)), sg.b - 1, "big")
                continue
            return Rope(segs)
        raise Unsupported("lstrip reaches an opaque segment")
    return Rope(segs)


def m_rope_hex(it, r):
    raise Unsupported("hex of symbolic bytes")


def m_tok_replace(it, s, old, new, count=-1):
    if is_sym(old) or is_sym(new) or count != -1:
        raise Unsupported("replace with symbolic pattern")
    if any(ch.isdigit() for ch in old):
        raise Unsupported("replace of a digit pattern on a token string")
    return TokStr([Tok("lit", t.v.replace(old, new)) if t.kind == "lit" else t for t in s.toks])


def m_tok_split(it, s, sep=None, maxsplit=-1):
    if sep is None or is_sym(sep) or maxsplit != -1 or len(sep) != 1 or sep.isdigit():
        raise Unsupported("split")
    parts = [[]]
    for t in s.toks:
        if t.kind == "digits":
            parts[-1].append(t)
        else:
            pieces = t.v.split(sep)
            for i, p in enumerate(pieces):
                if i > 0:
                    parts.append([])
                if p:
                    parts[-1].append(Tok("lit", p))
    out = []
    for p in parts:
        ts = TokStr(p)
        c = ts.concrete()
        out.append(c if c is not None else ts)
    return out


def m_tok_isnumeric(it, s):
    for t in s.toks:
        if t.kind == "lit" and not t.v.isnumeric():
            return False
    return len(s.toks) > 0


def m_tok_startswith(it, s, prefix):
    if is_sym(prefix):
        raise Unsupported("startswith symbolic")
    if s.toks and s.toks[0].kind == "lit" and len(s.toks[0].v) >= len(prefix):
        return s.toks[0].v.startswith(prefix)
    if prefix and not prefix[0].isdigit() and s.toks and s.toks[0].kind == "digits":
        return False
    raise Unsupported("startswith on token string")


def m_abs_encode(it, s, *a, **k):
    return Rope([Seg("opaque", ("utf8", s.name, s.ident), s.ulen)])


def m_abslist_append(it, lst, x):
    if not isinstance(x, AbsStr):
        raise Unsupported("append of non-abstract value to abstract list")
    lst.added.append(x)
    return None


_SYM_METHODS = {
    (SInt, "to_bytes"): m_int_to_bytes,
    (SInt, "bit_length"): m_int_bit_length,
    (Rope, "ljust"): m_rope_ljust,
    (Rope, "lstrip"): m_rope_lstrip,
    (Rope, "hex"): m_rope_hex,
    (TokStr, "replace"): m_tok_replace,
    (TokStr, "split"): m_tok_split,
    (TokStr, "isnumeric"): m_tok_isnumeric,
    (TokStr, "isdecimal"): m_tok_isnumeric,
    (TokStr, "isdigit"): m_tok_isnumeric,
    (TokStr, "startswith"): m_tok_startswith,
    (AbsStr, "encode"): m_abs_encode,
    (AbsList, "append"): m_abslist_append,
}


def tokstr_eq(a, b):
    """Decidable cases of token-string equality; None if not decidable structurally."""
    if a is None or b is None:
        return False
    ca, cb = a.concrete(), b.concrete()
    if ca is not None and cb is not None:
        return ca == cb
    # a literal without digits can never equal a string that contains a digits token, and vice versa when the
    # literal parts differ in their non-digit skeleton
    def skeleton(ts):
        out = []
        for t in ts.toks:
            if t.kind == "digits":
                if not out or out[-1] != "#":
                    out.append("#")
            else:
                cur = ""
                for ch in t.v:
                    if ch.isdigit():
                        if cur:
                            out.append(cur)
                            cur = ""
                        if not out or out[-1] != "#":
                            out.append("#")
                    else:
                        cur += ch
                if cur:
                    out.append(cur)
        return out

    if skeleton(a) != skeleton(b):
        return False
    return None


# ------------------------------------------------------------------------------------------------ rope helpers


def rope_repeat(it, r, n):
    if isinstance(n, int):
        c = r.concrete()
        if c is not None:
            return Rope.const(c * n)
        out = Rope()
        for _ in range(max(n, 0)):
            out = out.concat(r)
        return out
    c = r.concrete()
    if c is None or len(c) != 1:
        raise Unsupported("symbolic repetition of a multi-byte rope")
    if it.ctx.branch(n.t <= 0):
        return Rope()
    return Rope([Seg("fill", c[0], n.t)])


def rope_slice(it, r, lo, hi, st):
    if st is not None:
        raise Unsupported("rope slice with step")
    if is_sym(lo) or is_sym(hi):
        raise Unsupported("rope slice with symbolic bounds")
    # concrete bounds over a rope whose leading/trailing segments have concrete lengths
    lo = 0 if lo is None else lo
    segs = r.segs
    if lo < 0 or (hi is not None and hi < 0):
        # negative bounds: need concrete lengths counted from the end
        total = r.length()
        if not isinstance(total, int):
            # peel from the end
            if hi is None and lo < 0:
                need = -lo
                out = []
                for s in reversed(segs):
                    ln = s.length()
                    if not isinstance(ln, int):
                        raise Unsupported("negative slice into a symbolic-length segment")
                    if ln <= need:
                        out.insert(0, s)
                        need -= ln
                    else:
                        if s.kind == "const":
                            out.insert(0, Seg("const", s.a[ln - need :]))
                            need = 0
                        else:
                            raise Unsupported("slice splits a symbolic segment")
                    if need == 0:
                        break
                return Rope(out)
            if lo == 0 and hi is not None and hi < 0:
                need = -hi
                out = list(segs)
                while need > 0 and out:
                    s = out[-1]
                    ln = s.length()
                    if not isinstance(ln, int):
                        if s.kind in ("area", "fill") and it.ctx.branch(ln >= need):
                            if s.kind == "area":
                                out[-1] = Seg("area", s.a, s.b - need, s.c, s.d)
                            else:
                                out[-1] = Seg("fill", s.a, s.b - need)
                            need = 0
                            break
                        raise Unsupported("negative slice into a symbolic-length segment")
                    if ln <= need:
                        out.pop()
                        need -= ln
                    else:
                        if s.kind == "const":
                            out[-1] = Seg("const", s.a[: ln - need])
                            need = 0
                        else:
                            raise Unsupported("slice splits a symbolic segment")
                return Rope(out)
            raise Unsupported("negative rope slice")
        c = r.concrete()
        if c is not None:
            return Rope.const(c[lo:hi])
        raise Unsupported("negative rope slice")
    out = []
    pos = 0
    for s in segs:
        ln = s.length()
        if not isinstance(ln, int):
            if hi is not None and pos >= hi:
                break
            if pos >= lo and hi is None:
                out.append(s)
                pos = None
                continue
            raise Unsupported("slice reaches into a symbolic-length segment")
        if pos is None:
            out.append(s)
            continue
        a, b = pos, pos + ln
        s_lo = max(a, lo)
        s_hi = b if hi is None else min(b, hi)
        if s_lo < s_hi:
            if s_lo == a and s_hi == b:
                out.append(s)
            elif s.kind == "const":
                out.append(Seg("const", s.a[s_lo - a : s_hi - a]))
            elif s.kind == "fill":
                out.append(Seg("fill", s.a, s_hi - s_lo))
            elif s.kind == "opaque":
                out.append(Seg("opaque", ("slice", s.a, s_lo - a, s_hi - a), s_hi - s_lo))
            else:
                raise Unsupported("slice splits an integer segment")
        pos = b
    return Rope(out)


# ------------------------------------------------------------------------------------------------ common models


def model_len(it, args, kwargs):
    (x,) = args
    if isinstance(x, Rope):
        n = x.length()
        return n if isinstance(n, int) else SInt(z3.simplify(n))
    if isinstance(x, AbsStr):
        return SInt(x.clen)
    if isinstance(x, TokStr):
        c = x.concrete()
        if c is not None:
            return len(c)
        n = it.ctx.fresh_int("strlen")
        it.ctx.assume(n >= sum(len(t.v) if t.kind == "lit" else 1 for t in x.toks))
        return SInt(n)
    if isinstance(x, Obj) or is_sym(x):
        raise Unsupported("len of " + type(x).__name__)
    try:
        return len(x)
    except Exception as ex:  # noqa
        raise PyRaise(ex)


def model_bytes(it, args, kwargs):
    if not args:
        return b""
    (x,) = args
    if isinstance(x, Rope):
        return x
    if isinstance(x, SInt):
        if it.ctx.branch(x.t < 0):
            it.raise_(ValueError("negative count"))
        return Rope([Seg("fill", 0, x.t)])
    if isinstance(x, (list, tuple)) and any(is_sym(i) for i in x):
        r = Rope()
        for i in x:
            if isinstance(i, SInt):
                if it.ctx.branch(z3.Or(i.t < 0, i.t > 255)):
                    it.raise_(ValueError("bytes must be in range(0, 256)"))
                r = r.concat(Rope([Seg("int", i.t, 1, "big")]))
            else:
                r = r.concat(Rope.const(bytes([i])))
        return r
    if is_sym(x):
        raise Unsupported("bytes() of " + type(x).__name__)
    try:
        return bytes(x)
    except Exception as ex:  # noqa
        raise PyRaise(ex)


def model_ceil(it, args, kwargs):
    (x,) = args
    if isinstance(x, SRat):
        # exact ceiling of num/den, den != 0 on this path.  FP exactness of the real float division is lemma L1.
        if not it.ctx.branch(x.den > 0):
            raise Unsupported("ceil of a quotient with possibly negative divisor")
        q = it.ctx.fresh_int("ceil")
        it.ctx.assume(z3.And(q * x.den >= x.num, (q - 1) * x.den < x.num))
        it.ctx.log.append(("ceil_div", x.num, x.den, q))
        return SInt(q)
    if is_sym(x):
        raise Unsupported("ceil")
    return math.ceil(x)


def model_int(it, args, kwargs):
    x = args[0]
    if isinstance(x, SInt):
        return x
    if isinstance(x, TokStr):
        if len(args) > 1 and args[1] not in (10,):
            raise Unsupported("int() with base on token string")
        if len(x.toks) == 1 and x.toks[0].kind == "digits":
            return SInt(x.toks[0].v)
        if not m_tok_isnumeric(it, x):
            c = x.instantiate([7] * x.ndigits())
            try:
                int(c)
            except ValueError as ex:
                raise PyRaise(ex)
        raise Unsupported("int() of a composite token string")
    if is_sym(x):
        raise Unsupported("int()")
    try:
        return int(*args, **kwargs)
    except Exception as ex:  # noqa
        raise PyRaise(ex)


def model_isinstance(it, args, kwargs):
    x, ty = args
    tys = ty if isinstance(ty, tuple) else (ty,)
    if isinstance(x, (TokStr, AbsStr)):
        return str in tys or object in tys
    if isinstance(x, Rope):
        return bytes in tys or object in tys
    if isinstance(x, SInt):
        return int in tys or object in tys
    if isinstance(x, SBool):
        return bool in tys or int in tys or object in tys
    if isinstance(x, EnumVal):
        res = None
        for i, d in enumerate(x.domain):
            r = isinstance(d, tys)
            res = r if res is None else res
            if r != res:
                raise Unsupported("isinstance on heterogeneous enum")
        return res
    if isinstance(x, Obj):
        return any(issubclass(x._cls, t) for t in tys)
    return isinstance(x, ty)


def model_str(it, args, kwargs):
    (x,) = args
    if isinstance(x, (TokStr, AbsStr)):
        return x
    if isinstance(x, SInt):
        if not it.ctx.branch(x.t >= 0):
            raise Unsupported("str of negative symbolic int")
        return TokStr.digits(x.t)
    if is_sym(x) or isinstance(x, Obj):
        return "<sym>"
    return str(x)


def model_getattr(it, args, kwargs):
    o, name = args[0], args[1]
    if isinstance(name, TokStr):
        name = name.concrete()
        if name is None:
            raise Unsupported("getattr with symbolic name")
    try:
        return it.getattr(o, name)
    except PyRaise as pr:
        if len(args) > 2 and isinstance(pr.exc, AttributeError):
            return args[2]
        raise


def model_hasattr(it, args, kwargs):
    try:
        model_getattr(it, args, kwargs)
        return True
    except PyRaise as pr:
        if isinstance(pr.exc, AttributeError):
            return False
        raise


class KMatch:
    def __init__(self, groups):
        self._g = groups  # index 0 = whole match

    def groups(self, default=None):
        return tuple(default if g is None else g for g in self._g[1:])

    def group(self, i=0):
        return self._g[i]


def _re_apply(fn_name):
    import re as _re

    def model(it, args, kwargs):
        pat, s = args[0], args[1]
        if is_sym(pat):
            raise Unsupported("symbolic regular expression")
        if not isinstance(s, TokStr):
            return getattr(_re, fn_name)(*args, **kwargs)
        nd = s.ndigits()
        structures = []
        for inst in ([7] * nd, [42] * nd, [90817] * nd, [0] * nd):
            text = ""
            spans = []  # (start, end, token index)
            k = 0
            for ti, t in enumerate(s.toks):
                piece = t.v if t.kind == "lit" else str(inst[k])
                if t.kind == "digits":
                    k += 1
                spans.append((len(text), len(text) + len(piece), ti))
                text += piece
            m = getattr(_re, fn_name)(pat, text, *args[2:], **kwargs)
            if m is None:
                structures.append(None)
                continue
            gs = []
            for gi in range(0, (m.re.groups) + 1):
                a, b = m.span(gi)
                if a < 0:
                    gs.append(None)
                    continue
                toks = []
                for (x, y, ti) in spans:
                    lo, hi = max(a, x), min(b, y)
                    if lo >= hi:
                        continue
                    t = s.toks[ti]
                    if t.kind == "digits":
                        if (lo, hi) != (x, y):
                            gs.append(("partial-digits",))
                            break
                        toks.append(("d", ti))
                    else:
                        toks.append(("l", ti, lo - x, hi - x))
                else:
                    gs.append(tuple(toks))
            structures.append(tuple(gs))
        if any(st != structures[0] for st in structures[1:]):
            raise Unsupported("regex outcome depends on the digit values of a token string")
        st = structures[0]
        if st is None:
            return None
        groups = []
        for g in st:
            if g is None:
                groups.append(None)
                continue
            if g == ("partial-digits",):
                raise Unsupported("regex group splits a digits token")
            toks = []
            for e in g:
                if e[0] == "d":
                    toks.append(s.toks[e[1]])
                else:
                    toks.append(Tok("lit", s.toks[e[1]].v[e[2] : e[3]]))
            ts = TokStr(toks)
            c = ts.concrete()
            groups.append(c if c is not None else ts)
        return KMatch(groups)

    return model


def _install_re_models(models):
    import re as _re

    for n in ("match", "fullmatch", "search"):
        models[getattr(_re, n)] = _re_apply(n)


def _minmax(pick_first_if):
    def model(it, args, kwargs):
        if kwargs:
            raise Unsupported("min/max with keyword arguments")
        xs = list(args[0]) if len(args) == 1 else list(args)
        if not any(is_sym(x) for x in xs):
            return (min if pick_first_if == "lt" else max)(xs)
        best = xs[0]
        for x in xs[1:]:
            c = term(x) < term(best) if pick_first_if == "lt" else term(x) > term(best)
            if it.ctx.branch(c):
                best = x
        return best

    return model


def model_sum(it, args, kwargs):
    xs = list(args[0])
    acc = args[1] if len(args) > 1 else kwargs.get("start", 0)
    for x in xs:
        acc = it.binop(ast.Add, acc, x)
    return acc


BASE_MODELS = {
    sum: model_sum,
    min: _minmax("lt"),
    max: _minmax("gt"),
    len: model_len,
    bytes: model_bytes,
    math.ceil: model_ceil,
    int: model_int,
    isinstance: model_isinstance,
    str: model_str,
    getattr: model_getattr,
    hasattr: model_hasattr,
}
_install_re_models(BASE_MODELS)
