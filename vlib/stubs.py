"""Environment models (each one is part of the claim; DESIGN.md section 3).

All stubs are installed by rebinding module attributes at harness-build time; /repo is never edited.
"""
from __future__ import annotations

import io
import struct as _struct

from crosshair.tracers import NoTracing

# ------------------------------------------------------------------------------------------------ struct.Struct


class StructViaPack:
    """`struct.Struct(fmt).pack(...)` realizes its arguments under CrossHair; the `struct.pack` *function* is
    modelled symbolically.  Same contract."""

    def __init__(self, fmt):
        self.format = fmt
        self.size = _struct.calcsize(fmt)

    def pack(self, *a):
        return _struct.pack(self.format, *a)

    def unpack(self, b):
        return _struct.unpack(self.format, b)


class StructModuleProxy:
    """Stands in for the `struct` module object inside one repository module."""

    def __init__(self):
        self.Struct = StructViaPack
        self.pack = _struct.pack
        self.unpack = _struct.unpack
        self.calcsize = _struct.calcsize
        self.error = _struct.error


# ------------------------------------------------------------------------------------------------ file system


class FS:
    """In-memory file system; files hold concrete or symbolic bytes/str.  Writes are captured."""

    def __init__(self):
        self.files = {}  # list of (name, content) kept in a PairList to avoid hashing symbolic names
        self.names = []
        self.contents = []
        self.writes = []  # (name, mode, data)
        self.opened = []
        self.dirs = []  # directories created through the vfs layer
        self.removed = []

    def is_link(self, i):
        return isinstance(self.contents[i], Link)

    def add_symlink(self, name, target):
        self.add(name, Link(target))

    def open_over(self, name, mode, base, append=False):
        """Writable file over existing content (no truncation): r+ / a / os.open without O_TRUNC."""
        self.opened.append((name, mode))
        return _WFile(self, name, mode, base=base, append=append)

    def _find(self, name):
        name = _norm_name(name)
        for i, n in enumerate(self.names):
            if n == name:
                return i
        return -1

    def add(self, name, content):
        i = self._find(name)
        if i >= 0:
            self.contents[i] = content
        else:
            self.names.append(_norm_name(name))
            self.contents.append(content)

    def resolve(self, name, follow=True):
        """Index of the entry `name` denotes (-1: none); symbolic links are followed (bounded) unless follow is False."""
        i = self._find(name)
        hops = 0
        while follow and i >= 0 and isinstance(self.contents[i], Link) and hops < 4:
            tgt = self.contents[i].target
            base = self.names[i]
            if type(tgt) is str and not tgt.startswith("/") and type(base) is str and "/" in base:
                tgt = base.rsplit("/", 1)[0] + "/" + tgt
            i = self._find(tgt)
            hops += 1
        if i >= 0 and follow and isinstance(self.contents[i], Link):
            return -1
        return i

    def exists(self, name):
        return self.resolve(name) >= 0

    def getsize(self, name):
        i = self.resolve(name)
        if i < 0:
            raise FileNotFoundError(2, "No such file or directory", str(name))
        return len(self.contents[i])

    def read(self, name):
        i = self.resolve(name)
        if i < 0:
            raise FileNotFoundError(2, "No such file or directory", str(name))
        return self.contents[i]

    def open(self, name, mode="r", *a, **kw):
        self.opened.append((name, mode))
        if "w" in mode or "a" in mode:
            return _WFile(self, name, mode)
        data = self.read(name)
        if "b" in mode:
            if isinstance(data, str):
                data = data.encode("utf-8")
            return _RFile(data)
        if isinstance(data, (bytes, bytearray)):
            data = data.decode("utf-8")
        return _RFile(data)

    def written(self, name):
        name = _norm_name(name)
        for n, m, d in reversed(self.writes):
            if n == name:
                return d
        return None


def _norm_name(name):
    with NoTracing():
        import os
        import pathlib

        if isinstance(name, pathlib.PurePath):
            return str(name)
    return name


class Link:
    """Symbolic link entry of the in-memory file system."""

    def __init__(self, target):
        self.target = target


class _RFile:
    def __init__(self, data):
        self.data = data
        self.pos = 0

    def read(self, n=-1):
        if n is None or n < 0:
            r = self.data if self.pos == 0 else self.data[self.pos :]
            self.pos = len(self.data)
            return r
        r = self.data[self.pos : self.pos + n]
        self.pos += len(r)
        return r

    def readlines(self):
        d = self.read()
        return d.splitlines(True)

    def __iter__(self):
        return iter(self.readlines())

    def __enter__(self):
        return self

    def __exit__(self, *a):
        return False

    def close(self):
        pass


class _WFile:
    def __init__(self, fs, name, mode, base=None, append=False):
        self.fs = fs
        self.name = _norm_name(name)
        self.mode = mode
        self.parts = []
        self.base = base  # existing content that is overwritten in place from offset 0 (append: kept in front)
        self.append = append

    def write(self, d):
        if "b" in self.mode:
            if not isinstance(d, (bytes, bytearray)):
                raise TypeError("a bytes-like object is required, not '%s'" % type(d).__name__)
        else:
            if not isinstance(d, str):
                raise TypeError("write() argument must be str, not %s" % type(d).__name__)
        self.parts.append(d)
        return len(d)

    def __enter__(self):
        return self

    def __exit__(self, et, ev, tb):
        self.close()
        return False

    def close(self):
        if self.parts is None:
            return
        if "b" in self.mode:
            data = b""
            for p in self.parts:
                data = data + p
        else:
            data = ""
            for p in self.parts:
                data = data + p
        if self.base is not None:
            base = self.base
            if isinstance(base, str) and "b" in self.mode:
                base = base.encode("utf-8")
            if isinstance(base, (bytes, bytearray)) and "b" not in self.mode:
                base = bytes(base).decode("utf-8")
            if self.append:
                data = base + data
            elif len(data) < len(base):
                data = data + base[len(data) :]
        self.fs.writes.append((self.name, self.mode, data))
        self.fs.add(self.name, data)
        self.parts = None


# ------------------------------------------------------------------------------------------------ Intel HEX


class AddressOverlapError(Exception):
    pass


class HexRecorder:
    """Recording stand-in for intelhex.IntelHex.  Content = list of segments (address, bytes) with symbolic
    addresses allowed.  Contract mirrored from intelhex 2.3.0: frombytes(data, offset) places data[i] at offset+i;
    merge(other, overlap='error') raises AddressOverlapError if any address is in both; tobinstr(start, end)
    returns end-start+1 bytes with `padding` where nothing was placed; write_hex_file(name) stores the image."""

    LOG = []  # (event, ...) in program order, shared by all instances created in one harness run
    FILES = None  # FS with symbolic hex files: name -> HexRecorder (for IntelHex(file))

    def __init__(self, source=None):
        self.segs = []  # (addr, data)
        self.padding = 0xFF
        if source is not None:
            src = HexRecorder.FILES[source]
            self.segs = list(src.segs)
            HexRecorder.LOG.append(("load", source))

    def frombytes(self, data, offset=0):
        self.segs.append((offset, data))

    def merge(self, other, overlap="error"):
        for a, d in other.segs:
            for b, e in self.segs:
                if len(d) > 0 and len(e) > 0 and a < b + len(e) and b < a + len(d):
                    if overlap == "error":
                        raise AddressOverlapError("Data overlapped")
            self.segs.append((a, d))

    def minaddr(self):
        xs = [a for a, d in self.segs if len(d) > 0]
        if not xs:
            return None
        m = xs[0]
        for x in xs[1:]:
            if x < m:
                m = x
        return m

    def maxaddr(self):
        xs = [a + len(d) - 1 for a, d in self.segs if len(d) > 0]
        if not xs:
            return None
        m = xs[0]
        for x in xs[1:]:
            if x > m:
                m = x
        return m

    def write_hex_file(self, name, *a, **kw):
        HexRecorder.LOG.append(("write", name, list(self.segs)))

    def tofile(self, name, format="hex"):
        self.write_hex_file(name)


def bin2hex_recorder(fin, fout, offset=0):
    HexRecorder.LOG.append(("bin2hex", fin, fout, offset))
    return 0


# ------------------------------------------------------------------------------------------------ uuid5


class UToken:
    """uuid5(ns, name) as an uninterpreted, *congruent* function: equal argument trees give the same token
    (decided by symbolic ==), different trees give distinct concrete 16-byte values (collision-freeness assumed)."""

    def __init__(self, ns, name, idx):
        self.ns, self.name, self.idx = ns, name, idx
        self.bytes = b"\xA5UUID5-" + bytes([idx]) + b"\x5a" * 8
        self.hex = self.bytes.hex()

    def tree(self):
        return ("u5", self.ns.tree() if isinstance(self.ns, UToken) else ("ns", str(self.ns)), self.name)

    def __str__(self):
        return "uuid-token-%d" % self.idx


class UuidProxy:
    """Stands in for the `uuid` module inside one repository module."""

    LOG = []  # shared: tokens in creation order

    def __init__(self, real):
        self._real = real
        self.NAMESPACE_DNS = real.NAMESPACE_DNS
        self.NAMESPACE_URL = real.NAMESPACE_URL
        self.NAMESPACE_OID = real.NAMESPACE_OID
        self.NAMESPACE_X500 = real.NAMESPACE_X500
        self.UUID = real.UUID

    def uuid5(self, ns, name):
        if not isinstance(name, str):
            raise TypeError("uuid5 name must be str")
        for t in UuidProxy.LOG:
            same_ns = (t.ns is ns) if isinstance(ns, UToken) or isinstance(t.ns, UToken) else (t.ns == ns)
            if same_ns and t.name == name:
                return t
        t = UToken(ns, name, len(UuidProxy.LOG))
        UuidProxy.LOG.append(t)
        return t

    def uuid4(self):
        return self._real.uuid4()

    def __getattr__(self, k):
        return getattr(self._real, k)


# ------------------------------------------------------------------------------------------------ hashes


class HashLog:
    ENTRIES = []  # (alg_name, digest_size, data, token)

    @classmethod
    def reset(cls):
        cls.ENTRIES = []


class HashStub:
    """cryptography.hazmat.primitives.hashes.Hash as a congruent uninterpreted function with an argument log."""

    def __init__(self, algorithm, backend=None):
        self.alg = algorithm
        self.parts = []

    def update(self, data):
        if isinstance(data, memoryview):
            data = data.tobytes()
        if not isinstance(data, (bytes, bytearray)):
            raise TypeError("data must be bytes-like")
        if len(data) == 0 and self.parts:
            return
        self.parts.append(data)

    def finalize(self):
        if len(self.parts) == 1:
            data = self.parts[0]
        else:
            data = b""
            for p in self.parts:
                data = data + p
        name, size = self.alg.name, self.alg.digest_size
        for n, s, prev, tok in HashLog.ENTRIES:
            if n == name and s == size:
                if prev is data:
                    return tok
                if len(prev) == len(data) and prev == data:
                    return tok
        idx = len(HashLog.ENTRIES)
        tok = (b"\xd1\x9e" + bytes([idx & 0xFF, size & 0xFF]) + name.encode() + b"\x77" * size)[:size]
        HashLog.ENTRIES.append((name, size, data, tok))
        return tok


class HashesProxy:
    def __init__(self, real):
        self._real = real
        self.Hash = HashStub

    def __getattr__(self, k):
        return getattr(self._real, k)


def stub_hasher(alg_name, data):
    """The reference side of the congruent hash: same token for the same (algorithm, bytes); registry-sized."""
    from vlib import registry as R

    class _A:
        pass

    a = _A()
    a.name = R.HASHLIB_NAMES[alg_name].replace("_", "").replace("shake128", "shake128")
    # cryptography names: sha256, sha384, sha512, shake128, shake256
    a.digest_size = R.HASH_SIZES[alg_name]
    h = HashStub(a)
    h.update(data)
    return h.finalize()


# ------------------------------------------------------------------------------------------------ KMS / signer seams (E1)


class KMSRecorder:
    """Stands in for the KMS object behind ncs/sign_script.py and ncs/encrypt_script.py (seam: kms.sign / kms.encrypt).
    The real ncs/basic_kms.py is decided separately (E2 obligations)."""

    LOG = []
    SIGNATURES = []  # values to return, consumed in order (symbolic bytes)
    ENCRYPTS = []  # (nonce, tag, ciphertext) to return
    FAIL = None  # exception to raise from sign()

    def init_kms(self, context):
        self.init_context = context
        KMSRecorder.LOG.append(("init", context))

    def sign(self, data, key_name, algorithm, context):
        # the last element is the context this KMS *instance* was initialised with (a file-based KMS resolves its key
        # directory at init time: a stale instance signs with the wrong key)
        KMSRecorder.LOG.append(("sign", data, key_name, algorithm, context, getattr(self, "init_context", "<never initialised>")))
        if KMSRecorder.FAIL is not None:
            raise KMSRecorder.FAIL
        i = sum(1 for e in KMSRecorder.LOG if e[0] == "sign") - 1
        return KMSRecorder.SIGNATURES[i]

    def encrypt(self, plaintext, key_name, context, aad):
        KMSRecorder.LOG.append(("encrypt", plaintext, key_name, context, aad))
        i = sum(1 for e in KMSRecorder.LOG if e[0] == "encrypt") - 1
        return KMSRecorder.ENCRYPTS[i]

    @classmethod
    def reset(cls):
        cls.LOG, cls.SIGNATURES, cls.ENCRYPTS, cls.FAIL = [], [], [], None
