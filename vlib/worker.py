"""Run one obligation in its own process:  python -m vlib.worker <props.module> <obligation> <tier> [json-extra]

Prints one line `RESULT <json>`.  Exit status is always 0 unless the worker itself crashes.
"""
from __future__ import annotations

import importlib
import json
import os
import sys
import time
import traceback


def main():
    modname, obname, tier = sys.argv[1:4]
    extra = json.loads(sys.argv[4]) if len(sys.argv) > 4 else {}
    t0 = time.time()
    res = {"name": obname}
    try:
        # property modules may need to prepare the symbolic environment before importing repository code;
        # they do so lazily inside their harness builders (see props/*.py), so importing them is cheap.
        mod = importlib.import_module(modname)
        obs = {o.name: o for o in mod.obligations(tier)}
        ob = obs[obname]
        fn = getattr(mod, ob.fn)
        params = dict(ob.params)
        params.update(extra.get("params", {}))
        if ob.engine == "E1":
            from vlib import chx

            harness = fn(**params)
            r = chx.run_harness(harness, ob.budget, ob.per_path, twin=False)
            res.update(r)
            if ob.twin and r["verdict"] == "CONFIRMED":
                for attempt in range(3):
                    t = chx.run_harness(harness, min(ob.budget, 120.0) * (attempt + 1), ob.per_path * (attempt + 1), twin=True)
                    if t["verdict"] == "VIOLATED" and t["reached"] > 0:
                        break
                res["twin"] = dict(verdict=t["verdict"], reached=t["reached"], paths=t["paths"], seconds=t["seconds"], attempts=attempt + 1, message=t.get("message", "")[:200])
                if not (t["verdict"] == "VIOLATED" and t["reached"] > 0):
                    res["verdict"] = "VACUOUS"
                    res["message"] = "reachability twin did not fail: " + t.get("message", "")
            try:
                from vlib import cbormodel

                res["cbor_stats"] = dict(cbormodel.STATS)
            except Exception:
                pass
        else:
            r = fn(**params)
            res.update(r)
    except BaseException as e:  # noqa
        if type(e).__name__ in ("Inconclusive", "Unsupported"):
            res["verdict"] = "INCONCLUSIVE"
            res["message"] = f"{type(e).__name__}: {e}"
            res["wall_s"] = round(time.time() - t0, 3)
            sys.stdout.write("\nRESULT " + json.dumps(res, default=repr) + "\n")
            return
        res["verdict"] = "ERROR"
        res["message"] = "worker exception: " + "".join(traceback.format_exception(type(e), e, e.__traceback__))[-3000:]
    res["wall_s"] = round(time.time() - t0, 3)
    sys.stdout.write("\nRESULT " + json.dumps(res, default=repr) + "\n")
    sys.stdout.flush()


if __name__ == "__main__":
    main()
